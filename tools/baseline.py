#!/venv/bin/python
"""Run the repository's pinned suite (guard off) and compare with /root/.vp/BASELINE.json stable_pass.

Exit 0 iff every stable_pass test passed. Usage: tools/baseline.py [repo_root]
"""
import json, os, subprocess, sys, tempfile, xml.etree.ElementTree as ET

root = sys.argv[1] if len(sys.argv) > 1 else "/repo"
base = json.load(open("/root/.vp/BASELINE.json"))
want = set(base["stable_pass"])
with tempfile.TemporaryDirectory(dir="/var/tmp") as d:
    out = os.path.join(d, "j.xml")
    env = dict(os.environ)
    env.pop("TYPELIB_VERIF", None)
    env["PYTHONPATH"] = os.path.join(root, "src")
    p = subprocess.run(
        ["/venv/bin/python", "-m", "pytest", "-q", "-p", "no:cacheprovider", "--timeout=900",
         "--continue-on-collection-errors", f"--junitxml={out}"],
        cwd=root, env=env, capture_output=True, text=True)
    tree = ET.parse(out)
passed = set()
for tc in tree.iter("testcase"):
    if not any(c.tag in ("failure", "error", "skipped") for c in tc):
        passed.add(f"{tc.get('classname')}::{tc.get('name')}")
missing = sorted(want - passed)
print(f"stable_pass={len(want)} passed_now={len(passed)} missing={len(missing)} extra_pass={len(passed - want)}")
for m in missing[:40]:
    print("  MISSING", m)
sys.exit(1 if missing else 0)
