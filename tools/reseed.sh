#!/bin/bash
# re-evaluate every stored seeded change against its target check (after checks changed)
cd /verif
for d in seeded/*/; do
  s=$(basename $d); p=$(python3 -c "import json;print(json.load(open('$d/meta.json'))['breaks_property'])")
  tools/seed_eval.py $s $p $d/patch.diff $d/demo.py 2>&1 | tail -1
done
