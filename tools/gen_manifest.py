#!/venv/bin/python
"""Regenerate /verif/MANIFEST.json from the property modules that exist (keeps it valid at all times)."""
import importlib, json, os, sys
sys.path.insert(0, "/verif")
os.environ.setdefault("PYTHONHASHSEED", "0")
props = [json.loads(l) for l in open("/verif/properties.jsonl")]
NA = {}
if os.path.exists("/verif/tools/not_applicable.json"):
    NA = json.load(open("/verif/tools/not_applicable.json"))
checks, na, served = [], [], []
for p in props:
    pid = p["id"]
    path = f"/verif/harness/props/{pid.lower()}.py"
    if not os.path.exists(path) or pid in NA:
        na.append({"property_id": pid, "reason": NA.get(pid, "check not built yet in this session (see DESIGN.md section 5 for the planned generator/oracle)")})
        continue
    m = importlib.import_module(f"harness.props.{pid.lower()}")
    served.append(pid)
    checks.append({
        "property_id": pid,
        "quick_cmd": f"./check {pid} --tier quick",
        "thorough_cmd": f"./check {pid} --tier thorough",
        "evidence_file": f"/verif/evidence/{pid}.json",
        "replay_cmd_template": f"./check {pid} --replay {{path}}",
        "engine": "harness",
        "level_claimed": {"category": "exploration", "text": m.LEVEL_TEXT, "design_ref": f"DESIGN.md section 5, {pid}"},
        "level_note": m.LEVEL_NOTE,
        "technique": m.TECHNIQUE + ("; thorough tier adds coverage-guided fuzzing (atheris/libFuzzer drives the same Hypothesis strategies "
                                    "through fuzz_one_input with typelib instrumented, same oracle inside the target)" if hasattr(m, "cg_plan") else ""),
    })
man = {
    "version": 1,
    "setup_cmd": "./setup.sh",
    "hooks": {
        "guard": "TYPELIB_VERIF",
        "enable": "no source hooks are needed: /venv has typelib installed editable from /repo/src, checks import the working tree directly (TYPELIB_VERIF=1 is exported by ./check but nothing in the repository reads it)",
        "baseline_off_cmd": "cd /repo && /venv/bin/python -m pytest -ra -q -p no:cacheprovider --timeout=900 --continue-on-collection-errors",
        "source_commits": [],
        "add_only": True,
    },
    "engines": [{"name": "harness", "path": "/verif/harness", "serves_properties": served,
                 "kind_free_text": "Hypothesis 6.168 strategies / rule-based state machines + itertools enumeration, 16 forked workers, collect-bucket-report runner (harness/run.py); thorough tier: atheris 3.1 coverage-guided shards over the same strategies (harness/cg.py)"}],
    "checks": checks,
    "not_applicable": na,
    "notes": "All checks run under /venv/bin/python against /repo's working tree. VERIF_SEED seeds every Hypothesis run; PYTHONHASHSEED=0 is forced. Genuine defects repaired in /repo are 'fix:' commits listed in known_findings.json (status fixed); unrepaired ones are status known and print KNOWN-FINDING lines.",
}
json.dump(man, open("/verif/MANIFEST.json", "w"), indent=1)
open("/verif/MANIFEST.json", "a").write("\n")
print("claimed", served, "not_applicable", [x["property_id"] for x in na])
