#!/venv/bin/python
"""Re-run the target property's quick check against every stored seeded change (no suite run, no demo: realism was
established when the seed was first evaluated) and record the outcome next to the first-pass result.

usage: tools/recheck.py [--out FILE] [--apply FILE] [seed-name-prefix ...]

  default      run, print one line per seed, write {seed: {"rc", "buckets", "verif_seed"}} to --out (default
               /var/tmp/recheck.json); with name prefixes only those seeds (e.g. seed7 seed8a-C05)
  --apply FILE merge such a file into seeded/*/meta.json: the target check's entry under "checks" is replaced by the new
               outcome and "caught_by" recomputed (the bookkeeping of tools/seed_eval.py)
"""
import glob, json, os, shutil, subprocess, sys, tempfile

args = sys.argv[1:]
out = "/var/tmp/recheck.json"
if "--out" in args:
    out = args[args.index("--out") + 1]
    del args[args.index("--out"):args.index("--out") + 2]
VERIF = os.path.dirname(os.path.dirname(os.path.abspath(__file__)))
if "--apply" in args:
    res = json.load(open(args[args.index("--apply") + 1]))
    n = 0
    for seed, r in res.items():
        f = f"/verif/seeded/{seed}/meta.json"
        if not os.path.exists(f):
            continue
        m = json.load(open(f))
        if r["rc"] not in (0, 1):
            print("skipped (no verdict):", seed, r)
            continue
        m.setdefault("first_pass_caught_by", list(m.get("caught_by", [])))   # what the machinery caught before it was strengthened
        # same bookkeeping as tools/seed_eval.py: the latest outcome per check, caught_by derived from it
        m.setdefault("checks", {})[m["breaks_property"]] = {"rc": r["rc"], "violations": r["buckets"], "first": "", "wall_s": None,
                                                            "rechecked_at_verif_commit": r.get("verif_commit")}
        m["caught_by"] = sorted(c for c, v in m["checks"].items() if v["rc"] == 1)
        json.dump(m, open(f, "w"), indent=1)
        n += 1
    print("applied", n)
    sys.exit(0)

VSEED = os.environ.get("RECHECK_SEED", "1")
commit = subprocess.run(["git", "-C", VERIF, "rev-parse", "--short", "HEAD"], capture_output=True, text=True).stdout.strip()
res = {}
if os.path.exists(out):
    res = json.load(open(out))
for d in sorted(glob.glob("/verif/seeded/*/")):
    seed = os.path.basename(d.rstrip("/"))
    if args and not any(seed.startswith(a) for a in args):
        continue
    prop = json.load(open(d + "meta.json"))["breaks_property"]
    tmp = tempfile.mkdtemp(dir="/var/tmp", prefix="rc.")
    try:
        subprocess.run(f"git -C /repo archive HEAD | tar -x -C {tmp}", shell=True, check=True)
        subprocess.run(["git", "init", "-q", "."], cwd=tmp)
        ap = subprocess.run(["git", "apply", "--whitespace=nowarn", d + "patch.diff"], cwd=tmp, capture_output=True, text=True)
        if ap.returncode != 0:
            res[seed] = {"rc": -1, "buckets": 0, "verif_seed": 1, "error": "patch does not apply", "verif_commit": commit}
            print(seed, prop, "PATCH-FAILED", flush=True)
            continue
        env = dict(os.environ, VERIF_SEED=VSEED, VERIF_REPO_ROOT=tmp, VERIF_NO_EVIDENCE="1")
        r = subprocess.run(["./check", prop, "--tier", "quick"], cwd=VERIF, env=env, capture_output=True, text=True)
        nb = sum(1 for l in r.stdout.splitlines() if l.startswith("VIOLATION"))
        res[seed] = {"rc": r.returncode, "buckets": nb, "verif_seed": int(VSEED), "verif_commit": commit}
        print(seed, prop, f"rc={r.returncode} buckets={nb}", flush=True)
    finally:
        shutil.rmtree(tmp, ignore_errors=True)
    json.dump(res, open(out, "w"), indent=1)
print("missed:", sorted(s for s, r in res.items() if r["rc"] != 1))
