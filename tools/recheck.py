#!/venv/bin/python
"""Re-run the target property's quick check against every stored seeded change (no suite run, no demo: realism was
established when the seed was first evaluated) and record the outcome next to the first-pass result.

usage: tools/recheck.py [--out FILE] [--apply FILE] [seed-name-prefix ...]

  default      run, print one line per seed, write {seed: {"rc", "buckets", "verif_seed"}} to --out (default
               /var/tmp/recheck.json); with name prefixes only those seeds (e.g. seed7 seed8a-C05)
  --apply FILE merge such a file into seeded/*/meta.json as "caught_now" (list: the target property if its quick check
               reported a violation on the patched tree) - meta.json's first-pass "caught_by" is left as it is
"""
import glob, json, os, shutil, subprocess, sys, tempfile

args = sys.argv[1:]
out = "/var/tmp/recheck.json"
if "--out" in args:
    out = args[args.index("--out") + 1]
    del args[args.index("--out"):args.index("--out") + 2]
VERIF = os.path.dirname(os.path.dirname(os.path.abspath(__file__)))
if "--apply" in args:
    res = json.load(open(args[args.index("--apply") + 1]))
    n = 0
    for seed, r in res.items():
        f = f"/verif/seeded/{seed}/meta.json"
        if not os.path.exists(f):
            continue
        m = json.load(open(f))
        m["caught_now"] = [m["breaks_property"]] if r["rc"] == 1 and r["buckets"] else []
        m["caught_now_detail"] = {"rc": r["rc"], "buckets": r["buckets"], "verif_seed": r["verif_seed"], "verif_commit": r.get("verif_commit")}
        json.dump(m, open(f, "w"), indent=1)
        n += 1
    print("applied", n)
    sys.exit(0)

commit = subprocess.run(["git", "-C", VERIF, "rev-parse", "--short", "HEAD"], capture_output=True, text=True).stdout.strip()
res = {}
if os.path.exists(out):
    res = json.load(open(out))
for d in sorted(glob.glob("/verif/seeded/*/")):
    seed = os.path.basename(d.rstrip("/"))
    if args and not any(seed.startswith(a) for a in args):
        continue
    prop = json.load(open(d + "meta.json"))["breaks_property"]
    tmp = tempfile.mkdtemp(dir="/var/tmp", prefix="rc.")
    try:
        subprocess.run(f"git -C /repo archive HEAD | tar -x -C {tmp}", shell=True, check=True)
        subprocess.run(["git", "init", "-q", "."], cwd=tmp)
        ap = subprocess.run(["git", "apply", "--whitespace=nowarn", d + "patch.diff"], cwd=tmp, capture_output=True, text=True)
        if ap.returncode != 0:
            res[seed] = {"rc": -1, "buckets": 0, "verif_seed": 1, "error": "patch does not apply", "verif_commit": commit}
            print(seed, prop, "PATCH-FAILED", flush=True)
            continue
        env = dict(os.environ, VERIF_SEED="1", VERIF_REPO_ROOT=tmp, VERIF_NO_EVIDENCE="1")
        r = subprocess.run(["./check", prop, "--tier", "quick"], cwd=VERIF, env=env, capture_output=True, text=True)
        nb = sum(1 for l in r.stdout.splitlines() if l.startswith("VIOLATION"))
        res[seed] = {"rc": r.returncode, "buckets": nb, "verif_seed": 1, "verif_commit": commit}
        print(seed, prop, f"rc={r.returncode} buckets={nb}", flush=True)
    finally:
        shutil.rmtree(tmp, ignore_errors=True)
    json.dump(res, open(out, "w"), indent=1)
print("missed:", sorted(s for s, r in res.items() if r["rc"] != 1))
