#!/venv/bin/python
"""Rewrite the generated blocks of DESIGN.md (between <!-- BEGIN:x --> / <!-- END:x --> markers)."""
import json, os, re, subprocess, glob
D = "/verif/DESIGN.md"
s = open(D).read()
kf = json.load(open("/verif/known_findings.json"))["findings"]

def block(name, text):
    global s
    pat = re.compile(rf"(<!-- BEGIN:{name} -->)(.*?)(<!-- END:{name} -->)", re.S)
    assert pat.search(s), name
    s = pat.sub(lambda m: m.group(1) + "\n" + text.strip() + "\n" + m.group(3), s)

rows = ["| id | property (also) | status | repo commit | what failed |", "|---|---|---|---|---|"]
for e in kf:
    also = (" (" + ", ".join(e["also"]) + ")") if e.get("also") else ""
    rows.append(f"| {e['id']} | {e['property']}{also} | {e['status']} | {e.get('commit', '-')} | {e['what'].replace('|', '\\|')} |")
block("ledger", "\n".join(rows))

seeds = []
for f in sorted(glob.glob("/verif/seeded/*/meta.json")):
    m = json.load(open(f))
    seeds.append(m)
rows = ["| seeded change | breaks | realistic (suite passes, demo fails) | caught by (quick tier) | needs, in order to manifest |", "|---|---|---|---|---|"]
for m in seeds:
    rows.append(f"| {m['seed']} | {m['breaks_property']} | {'yes' if m.get('realistic') else 'NO'} | {', '.join(m.get('caught_by', [])) or '**missed**'} | {m.get('needs_to_manifest', '').replace('|', '\\|')} |")
block("seeds", "\n".join(rows) if seeds else "(no seeded changes evaluated yet)")
open(D, "w").write(s)
print("ledger rows", len(kf), "seeds", len(seeds))
