#!/bin/bash
# tools/eval_round5.sh C01 C02 ... : evaluate the two round-6 changes of each named property (from /tmp/seed7/<C>/SEED/{a,b})
cd /verif
for c in "$@"; do
  for v in a b; do
    d=/tmp/seed7/$c/SEED/$v
    [ -f $d/patch.diff ] || { echo "seed7$v-$c: missing"; continue; }
    tools/seed_eval.py seed7$v-$c $c $d/patch.diff $d/demo.py --notes $d/notes.md 2>&1 | tail -2
  done
done
