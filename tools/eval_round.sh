#!/bin/bash
# tools/eval_round.sh <round-no> C01 C02 ... : evaluate the two changes of each named property from /tmp/seed<round>/<C>/SEED/{a,b}
cd /verif
R=$1; shift
for c in "$@"; do
  for v in a b; do
    d=/tmp/seed$R/$c/SEED/$v
    [ -f $d/patch.diff ] || { echo "seed$R$v-$c: missing"; continue; }
    tools/seed_eval.py seed$R$v-$c $c $d/patch.diff $d/demo.py --notes $d/notes.md 2>&1 | tail -2
  done
done
