#!/bin/bash
# tools/quiet.sh "<seeds>" [IDs...]  - run quick checks at several seeds, print one line per run; evidence goes to scratch
cd /verif
SEEDS=${1:-"1 2 3 7 1234"}; shift
IDS=${@:-"C01 C02 C03 C04 C05 C06 C07 C08 C09 C10 C11 C12 C13 C14 C15 C16 C17 C18 C19 C20"}
for s in $SEEDS; do for id in $IDS; do
  out=$(VERIF_SEED=$s VERIF_NO_EVIDENCE=1 timeout 1500 ./check $id 2>&1); rc=$?
  echo "seed=$s $id rc=$rc $(echo "$out" | grep -c '^VIOLATION') viol | $(echo "$out" | tail -1 | cut -c1-150)"
  if [ $rc -ne 0 ]; then echo "$out" | grep "bucket=" | head -3 | cut -c1-300; fi
done; done
