#!/venv/bin/python
"""For every 'fixed' entry of known_findings.json: replay its minimal case on the tree just before the
fix commit (must report a VIOLATION) and on the current tree (must not)."""
import json, os, subprocess, sys, tempfile, shutil
d = json.load(open("/verif/known_findings.json"))
only = set(sys.argv[1:])
bad = 0
for e in d["findings"]:
    if e["status"] != "fixed" or (only and e["id"] not in only):
        continue
    tmp = tempfile.mkdtemp(dir="/var/tmp", prefix="prefix.")
    try:
        os.makedirs(tmp + "/repo")
        subprocess.run(f"git -C /repo archive {e['commit']}^ | tar -x -C {tmp}/repo", shell=True, check=True)
        case = tmp + "/case.json"
        json.dump({"clause": e["minimal"]["clause"], "case": e["minimal"]["case"]}, open(case, "w"))
        env = dict(os.environ, VERIF_REPO_ROOT=tmp + "/repo", VERIF_NO_EVIDENCE="1")
        pre = subprocess.run(["./check", e["property"], "--replay", case], cwd="/verif", env=env, capture_output=True, text=True)
        now = subprocess.run(["./check", e["property"], "--replay", case], cwd="/verif", capture_output=True, text=True)
        ok = pre.returncode == 1 and now.returncode == 0
        print(f"{e['id']:8s} {e['property']} pre-fix rc={pre.returncode} now rc={now.returncode} {'OK' if ok else 'PROBLEM'}")
        if not ok:
            bad += 1
            print("   pre:", (pre.stdout + pre.stderr)[-400:].replace("\n", " | "))
            print("   now:", (now.stdout + now.stderr)[-300:].replace("\n", " | "))
    finally:
        shutil.rmtree(tmp, ignore_errors=True)
sys.exit(1 if bad else 0)
