#!/bin/bash
# validate MANIFEST.json and all evidence files against the schemas
python3-vt - <<'PY'
import json, jsonschema, glob
jsonschema.validate(json.load(open('/verif/MANIFEST.json')), json.load(open('/root/.vp/MANIFEST.schema.json')))
es = json.load(open('/root/.vp/EVIDENCE.schema.json'))
for f in sorted(glob.glob('/verif/evidence/*.json')):
    jsonschema.validate(json.load(open(f)), es); print('ok', f)
print('manifest ok')
PY
