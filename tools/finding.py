#!/venv/bin/python
"""tools/finding.py add <id> <property> <status> <commit|-> <predicate|-> <clause> '<case json>' '<what>'"""
import json, sys
p = "/verif/known_findings.json"
d = json.load(open(p))
_, cmd, fid, prop, status, commit, pred, clause, case, what = sys.argv
e = {"id": fid, "property": prop, "status": status, "what": what,
     "minimal": {"clause": clause, "case": json.loads(case)}}
if status == "fixed":
    e["commit"] = commit
    e["record"] = f"fixed: property={prop} {commit} {what}"
else:
    e["predicate"] = pred
    e["record"] = f"known: property={prop} {what}"
d["findings"] = [x for x in d["findings"] if x["id"] != fid] + [e]
json.dump(d, open(p, "w"), indent=1)
open(p, "a").write("\n")
print("ok", fid)
