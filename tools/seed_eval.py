#!/venv/bin/python
"""Evaluate one seeded change.

usage: tools/seed_eval.py <seed_id> <property> <patch.diff> <demo.py> [--checks C01,C05|all] [--notes file]

1. confirms the change is realistic: on a scratch copy of /repo HEAD the demo exits 0; with the patch the repository's
   own suite still passes (baseline) and the demo exits non-zero;
2. runs the requested quick checks against the patched scratch copy (VERIF_REPO_ROOT) and records which ones report
   a VIOLATION;
3. stores patch, demo and meta.json under /verif/seeded/<seed_id>/.
"""
import json, os, shutil, subprocess, sys, tempfile, time

args = sys.argv[1:]
seed_id, prop, patch, demo = args[:4]
checks = "target"
notes = None
if "--checks" in args:
    checks = args[args.index("--checks") + 1]
if "--notes" in args:
    notes = args[args.index("--notes") + 1]
ALL = [f"C{i:02d}" for i in range(1, 21)]
todo = [prop] if checks == "target" else (ALL if checks == "all" else checks.split(","))

tmp = tempfile.mkdtemp(dir="/var/tmp", prefix="seed.")
meta = {"seed": seed_id, "breaks_property": prop, "evaluated_at_repo_commit": subprocess.check_output(["git", "-C", "/repo", "rev-parse", "--short", "HEAD"], text=True).strip()}
try:
    A, B = tmp + "/a", tmp + "/b"
    for d in (A, B):
        os.makedirs(d)
        subprocess.run(f"git -C /repo archive HEAD | tar -x -C {d}", shell=True, check=True)
    ap = subprocess.run(["git", "apply", "--whitespace=nowarn", os.path.abspath(patch)], cwd=B, capture_output=True, text=True)
    if ap.returncode != 0:
        subprocess.run(["git", "init", "-q", "."], cwd=B)
        ap = subprocess.run(["git", "apply", "--whitespace=nowarn", os.path.abspath(patch)], cwd=B, capture_output=True, text=True)
    meta["patch_applies"] = ap.returncode == 0
    if ap.returncode != 0:
        meta["patch_error"] = ap.stderr[-400:]
    def run_demo(root):
        env = dict(os.environ, PYTHONPATH=root + "/src")
        r = subprocess.run(["/venv/bin/python", os.path.abspath(demo)], cwd=root, env=env, capture_output=True, text=True, timeout=600)
        return r.returncode, (r.stdout + r.stderr)[-500:]
    meta["demo_on_unchanged_tree"] = run_demo(A)[0]
    rc, out = run_demo(B)
    meta["demo_with_change"] = rc
    meta["demo_output_with_change"] = out
    suite = subprocess.run(["/verif/tools/baseline.py", B], capture_output=True, text=True)
    meta["repo_suite_passes_with_change"] = suite.returncode == 0
    meta["repo_suite_summary"] = suite.stdout.strip().splitlines()[0] if suite.stdout.strip() else ""
    meta["realistic"] = bool(meta["patch_applies"] and meta["demo_on_unchanged_tree"] == 0 and meta["demo_with_change"] != 0 and meta["repo_suite_passes_with_change"])
    res = {}
    for cid in todo:
        t0 = time.time()
        env = dict(os.environ, VERIF_REPO_ROOT=B, VERIF_NO_EVIDENCE="1")
        r = subprocess.run(["./check", cid, "--tier", "quick"], cwd="/verif", env=env, capture_output=True, text=True)
        lines = [l for l in r.stdout.splitlines() if l.startswith("  bucket=")]
        res[cid] = {"rc": r.returncode, "violations": sum(1 for l in r.stdout.splitlines() if l.startswith("VIOLATION")),
                    "first": lines[0][:300] if lines else "", "wall_s": round(time.time() - t0, 1)}
        print(f"  {seed_id}: {cid} rc={r.returncode} {lines[0][:160] if lines else ''}", flush=True)
    meta["checks"] = res
    meta["caught_by"] = sorted(c for c, v in res.items() if v["rc"] == 1)
    out_dir = f"/verif/seeded/{seed_id}"
    os.makedirs(out_dir, exist_ok=True)
    if os.path.abspath(patch) != out_dir + "/patch.diff":
        shutil.copy(patch, out_dir + "/patch.diff")
    if os.path.abspath(demo) != out_dir + "/demo.py":
        shutil.copy(demo, out_dir + "/demo.py")
    if notes and os.path.exists(notes):
        shutil.copy(notes, out_dir + "/notes.md")
    old = {}
    if os.path.exists(out_dir + "/meta.json"):
        old = json.load(open(out_dir + "/meta.json"))
        merged = dict(old.get("checks", {}))
        merged.update(res)
        meta["checks"] = merged
        meta["caught_by"] = sorted(c for c, v in merged.items() if v["rc"] == 1)
        for k in ("needs_to_manifest", "description"):
            if k in old:
                meta[k] = old[k]
    json.dump(meta, open(out_dir + "/meta.json", "w"), indent=1)
    print(f"{seed_id}: realistic={meta['realistic']} caught_by={meta['caught_by']}")
finally:
    shutil.rmtree(tmp, ignore_errors=True)
