#!/bin/bash
# tools/mutant.sh <patch.diff | -e 'sed-expr' file> -- <ID> [<ID>...]
# Apply a patch to a scratch copy of /repo (src+tests only), run the repo's own suite there (must pass to be
# a realistic change), run the given quick checks against the copy, clean up.
set -u
PATCH=$1; shift
[ "$1" = "--" ] && shift
D=$(mktemp -d /var/tmp/mut.XXXXXX)
trap 'rm -rf "$D"' EXIT
mkdir -p $D/repo && cd /repo && git archive HEAD | tar -x -C $D/repo
cd $D/repo && git init -q . || exit 3
case "$PATCH" in
  *.py) /venv/bin/python "$PATCH" $D/repo || { echo "PATCH-FAILED"; exit 3; } ;;
  *) git apply --whitespace=nowarn "$PATCH" || { echo "PATCH-FAILED"; exit 3; } ;;
esac
if [ "${SKIP_TESTS:-0}" != 1 ]; then
  /verif/tools/baseline.py $D/repo | head -5
fi
for id in "$@"; do
  ( cd /verif && VERIF_REPO_ROOT=$D/repo VERIF_NO_EVIDENCE=1 ./check $id --tier ${TIER:-quick} 2>&1 | grep -v '^  bucket' | cut -c1-200 | tail -${LINES_OUT:-4} )
done
