#!/venv/bin/python
"""tools/make_prompts.py <round> <kinds-file> : write /tmp/seedtools/prompt<round>_<Cxx>.txt for every property.

The prompt gives a fresh sub-agent nothing but the text of one property (from properties.jsonl), its own scratch worktree
/tmp/seed<round>/<Cxx>, the two *kinds* of change asked for in this round (kinds-file: two paragraphs, "A: ..." and "B: ...") and
the list of places earlier rounds already modified for that property (read off seeded/*/patch.diff hunk headers) - nothing from /verif.
"""
import glob, json, os, re, sys

rnd, kinds_file = sys.argv[1], sys.argv[2]
kinds = open(kinds_file).read().strip()
props = [json.loads(l) for l in open("/verif/properties.jsonl")]
used = {}
for d in sorted(glob.glob("/verif/seeded/*/")):
    m = json.load(open(d + "meta.json"))
    places = used.setdefault(m["breaks_property"], set())
    f = None
    for line in open(d + "patch.diff", errors="replace"):
        if line.startswith("+++ b/"):
            f = line[6:].strip().replace("src/typelib/", "")
        mm = re.match(r"@@ [^@]* @@ ?(.*)", line)
        if mm and f:
            places.add(f"{f} [{mm.group(1).strip()[:60]}]")
for p in props:
    c = p["id"]
    w = f"/tmp/seed{rnd}/{c}"
    text = f"""You are helping evaluate a test-generation effort for the open-source Python library python-typelib (pure-Python runtime type inspection, marshalling/unmarshalling, JSON codecs, signature binding). You have your OWN scratch git worktree of the library at {w} (source in {w}/src/typelib, tests in {w}/tests). Work ONLY inside {w}. Never touch /repo or /verif and never read anything under /verif. Python to use: /venv/bin/python, always with PYTHONPATH={w}/src (the default install points at another copy!). There is no network.

A user-level semantic property of the library that is supposed to hold for all inputs / histories:

PROPERTY {c}: {p['title']}
STATEMENT: {p['statement']}
QUANTIFIED OVER: {p['quantifier']['text']}

Your job: produce TWO independent source changes (call them A and B) to the library under {w}/src/typelib, each of which
  1. breaks the property above (strictly inside its stated domain - inputs/annotations/histories the statement covers),
  2. still imports fine and still passes the library's whole existing test suite: check with `/tmp/seedtools/run_suite.py {w}` (takes about a minute; exit 0 and "newly failing: 0" required),
  3. looks like a realistic slip or a well-meant refactoring/optimisation/bug-fix a maintainer could plausibly make (no sabotage keyed on magic values, no `if x == 12345`, no randomness, no environment/time checks),
  4. is NOT exposed by ordinary simple use: it must need something specific to manifest.
{kinds}
A and B must differ from each other in location.
Earlier experiments already modified these places for this property: {'; '.join(sorted(used.get(c, []))) or '(none)'}. Prefer places and mechanisms NOT in that list (anything under src/typelib that the property's behaviour flows through is fair game: graph.py, ctx.py, serdes.py, compat.py, constants.py, py/inspection.py, py/refs.py, py/frames.py, py/classes.py, py/future.py, py/contrib.py, marshals/*, unmarshals/*, binding.py, codecs.py, api.py); if you must touch a listed place, use a clearly different mechanism than the well-worn ones ("memoise by a too-coarse key", "prefer __slots__/__annotations__ over the MRO-wide hints", "split a dotted name at the wrong dot", "remember the member that took the last value of a class", "id()/marker set not cleaned up after an exception", "import TypeAliasType from typing_extensions unconditionally").

For each change X in (a, b) write into {w}/SEED/X/ :
  - patch.diff : `git diff` of the change against the worktree HEAD (paths relative to the worktree root, src/typelib/... only; do not include SEED/ or tests),
  - demo.py    : a small standalone program (no pytest; only stdlib + typelib + what /venv has) that exits 0 on the UNCHANGED tree and exits non-zero WITH the change, printing what went wrong; it must demonstrate a violation of the property as stated (not merely some behaviour difference),
  - notes.md   : what was changed, why it breaks the property, exactly what it needs in order to manifest, and the commands you ran with their outcomes.
Procedure per change: make the edit; run the suite tool; run the demo with the change (must fail); `git diff -- src > SEED/X/patch.diff`; `git checkout -- src` ; run the demo again (must pass). Start B from a clean tree. When finished, leave the worktree clean (`git -C {w} checkout -- src`; `git -C {w} status --short` shows only SEED/). Verify finally that each patch applies to a clean tree with `git -C {w} apply --check SEED/X/patch.diff`.
Read the relevant library code first so that the change is subtle and the suite really stays green. If the suite goes red, revise the change - do not edit tests. Keep your own scratch files inside {w}/SEED/scratch/. Final answer: two short paragraphs (A, B) - location, mechanism, what it needs to manifest."""
    os.makedirs("/tmp/seedtools", exist_ok=True)
    open(f"/tmp/seedtools/prompt{rnd}_{c}.txt", "w").write(text)
print("wrote", len(props), "prompts")
