#!/bin/bash
# tools/try_patch.sh <patch.diff> <Cxx> [seed]: run Cxx's quick check against a scratch copy of /repo with the patch applied
t=$(mktemp -d -p /var/tmp tp.XXXX); git -C /repo archive HEAD | tar -x -C $t; (cd $t; git init -q .; git apply --whitespace=nowarn $1) || { echo PATCH-FAILED; rm -rf $t; exit 3; }
cd /verif; VERIF_SEED=${3:-1} VERIF_REPO_ROOT=$t VERIF_NO_EVIDENCE=1 ./check $2 --tier quick 2>&1 | grep -av "^KNOWN" | tail -4 | cut -c1-500
rm -rf $t
