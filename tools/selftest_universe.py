#!/venv/bin/python
"""Harness self-test (no typelib involved): generated values conform to their spec, to_src round-trips."""
import sys, collections, traceback
sys.path.insert(0, "/verif")
from harness import core, universe as U
from harness.oracles import deep_same
from hypothesis import strategies as st
stats = collections.Counter()
def one(data_spec):
    spec, data = data_spec
    try:
        mat = U.materialise(spec)
    except Exception as e:
        stats["materialise-fail:" + type(e).__name__] += 1
        if stats["printed"] < 5:
            stats["printed"] += 1; traceback.print_exc(); print(U.spec_key(spec)[:600])
        return
    with mat:
        stats["programs"] += 1
        for s in U.walk(spec):
            stats["kind:" + s["k"]] += 1
            if s["k"] == "ref" and (s["mod"], s["name"]) not in mat.class_specs:
                stats["DANGLING-REF"] += 1; print("DANGLING", s, mat.root_expr)
        # soundness of the generated source: Python itself resolves every annotation of every declared class (a text that names
        # nothing would make the library fall back to "no usable hints" - and a check report that as a defect)
        import typing
        import inspect
        for key, cls in mat.classes.items():
            if not inspect.isclass(cls):
                continue
            stats["classes"] += 1
            try:
                typing.get_type_hints(cls, include_extras=True)
            except Exception as ex:
                stats["UNRESOLVABLE-HINTS"] += 1
                if stats["printed-hints"] < 5:
                    stats["printed-hints"] += 1; print("HINTS", key, repr(ex)[:200], mat.root_expr)
        try:
            vs = U.values(spec, mat)
        except U._Exhausted:
            stats["exhausted"] += 1; return
        for _ in range(3):
            v = data.draw(vs)
            stats["values"] += 1
            e = U.conforms(spec, v, mat)
            if e: stats["NONCONFORMING"] += 1; print("NONCONF", e, mat.root_expr)
            src = U.to_src(v, mat)
            try:
                v2 = mat.eval(src)
                if not deep_same(v, v2): stats["TOSRC-DIFF"] += 1; print("DIFF", src)
            except Exception as ex:
                stats["TOSRC-FAIL"] += 1; print("TOSRC", repr(ex), src[:300])
            try:
                U.plain_wire(spec, v, mat)
            except Exception as ex:
                stats["WIRE-FAIL"] += 1; print("WIRE", repr(ex), mat.root_expr)
core.drive(st.tuples(U.root_specs(max_depth=int(sys.argv[3]) if len(sys.argv) > 3 else 4, mods=3, adversarial=True), st.data()), one, n=int(sys.argv[1]) if len(sys.argv) > 1 else 400, seed=int(sys.argv[2]) if len(sys.argv) > 2 else 5)
for k, v in sorted(stats.items()): print(k, v)
