#!/bin/bash
# tools/seed_multi.sh <seed-dir-name> <property> "<VERIF_SEED values>": how reliably does the quick check catch a seeded change?
cd /verif
S=$1; P=$2; SEEDS=${3:-"1 2 3 4 5"}
D=$(mktemp -d /var/tmp/sm.XXXXXX)
git -C /repo archive HEAD | tar -x -C $D
(cd $D && git init -q . && git apply --whitespace=nowarn /verif/seeded/$S/patch.diff) || { echo "patch failed"; rm -rf $D; exit 2; }
for s in $SEEDS; do
  out=$(VERIF_SEED=$s VERIF_REPO_ROOT=$D VERIF_NO_EVIDENCE=1 ./check $P --tier quick 2>&1)
  echo "$S $P seed=$s rc=$? buckets=$(echo "$out" | grep -c '^VIOLATION') $(echo "$out" | grep '^  bucket=' | sed 's/ detail=.*//' | head -4 | tr '\n' ';')"
done
rm -rf $D
