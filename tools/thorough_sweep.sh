#!/bin/bash
# tools/thorough_sweep.sh [IDs...] - every thorough tier once (evidence to scratch), one summary line per check; meant for `vp run`
cd "$(dirname "$0")/.." || exit 2
IDS=${@:-"C17 C10 C20 C16 C18 C19 C04 C02 C06 C13 C03 C11 C09 C08 C14 C15 C05 C01 C12 C07"}
for id in $IDS; do
  s=$(date +%s)
  out=$(VERIF_NO_EVIDENCE=1 ./check $id --tier thorough 2>&1); rc=$?
  echo "$id rc=$rc wall=$(( $(date +%s)-s ))s viol=$(echo "$out" | grep -c '^VIOLATION') | $(echo "$out" | tail -1 | cut -c1-200)"
  if [ $rc -ne 0 ]; then echo "$out" | grep -B1 "^VIOLATION" | cut -c1-700 | head -12; echo "$out" | grep -i "HARNESS-ERROR\|Traceback" | head -3; mkdir -p /var/tmp/thorough_replays/$id; cp out/replays/$id/*.json /var/tmp/thorough_replays/$id/ 2>/dev/null; fi
done
