"""Cold oracle: 'the same operation run alone in a cold process'.

A pristine zygote process is forked at the start of a shard, before the shard has made any typelib
call. For every query the zygote forks a grandchild that performs the single operation and pipes back
a pickled outcome; the grandchild exits, so no state survives between queries.
"""

from __future__ import annotations

import os
import pickle
import struct


def _send(fd, obj):
    data = pickle.dumps(obj, protocol=pickle.HIGHEST_PROTOCOL)
    os.write(fd, struct.pack("<I", len(data)))
    while data:
        n = os.write(fd, data)
        data = data[n:]


def _recv(fd):
    head = b""
    while len(head) < 4:
        chunk = os.read(fd, 4 - len(head))
        if not chunk:
            raise EOFError
        head += chunk
    (n,) = struct.unpack("<I", head)
    data = b""
    while len(data) < n:
        chunk = os.read(fd, n - len(data))
        if not chunk:
            raise EOFError
        data += chunk
    return pickle.loads(data)


class Cold:
    def __init__(self, perform):
        """perform(request) -> picklable outcome; runs in a fresh grandchild per request."""
        self.req_r, self.req_w = os.pipe()
        self.res_r, self.res_w = os.pipe()
        self.queries = 0
        pid = os.fork()
        if pid == 0:
            os.close(self.req_w)
            os.close(self.res_r)
            try:
                while True:
                    try:
                        req = _recv(self.req_r)
                    except EOFError:
                        break
                    if req is None:
                        break
                    gpid = os.fork()
                    if gpid == 0:
                        try:
                            out = perform(req)
                        except BaseException as e:  # noqa: BLE001
                            out = ("harness-error", repr(e))
                        try:
                            _send(self.res_w, out)
                        finally:
                            os._exit(0)
                    os.waitpid(gpid, 0)
            finally:
                os._exit(0)
        self.pid = pid
        os.close(self.req_r)
        os.close(self.res_w)

    def query(self, req):
        self.queries += 1
        _send(self.req_w, req)
        return _recv(self.res_r)

    def close(self):
        try:
            _send(self.req_w, None)
            os.close(self.req_w)
            os.waitpid(self.pid, 0)
        except Exception:
            pass
