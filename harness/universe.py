"""The supported type universe U (DESIGN.md section 3) as a generator of *programs*.

A type spec is a JSON-able dict:
  {"k": "scalar", "t": "int"}                      scalars (see SCALARS)
  {"k": "none"}
  {"k": "enum", "name", "mod", "flavour": plain|int|str, "members": [[name, value], ...]}
  {"k": "literal", "values": [...]}
  {"k": "list"|"set"|"frozenset"|"deque"|"vtuple", "a": [X], "sp": spelling}
  {"k": "tuple", "a": [A, B, ..], "sp": "builtin"|"typing"}
  {"k": "dict", "a": [K, V], "sp": spelling}
  {"k": "optional", "a": [X], "sp": "Optional"|"pipe"|"Union"|"pipe_first"}
  {"k": "union", "a": [A, B, ..], "sp": "Union"|"pipe"}       (members may be {"k": "none"})
  {"k": "class", "name", "mod", "flavour", "future": bool, "fields": [{"n", "t", "default", "final", "notreq"}]}
  {"k": "newtype"|"alias"|"stralias", "name", "mod", "a": [X]}
  {"k": "final"|"classvar", "a": [X]}
  {"k": "ref", "name", "mod"}                      reference to an enclosing class (recursion)
  {"k": "latealias", "name", "mod", "a": [X], "wrapper": "alias"|"newtype"}
                                                   a named (non-string) alias / NewType declared *after* the classes it
                                                   mentions; class fields refer to it by its (quoted) name

`materialise(spec)` synthesises real modules (registered in sys.modules under fresh names) and
evaluates the root annotation. Everything here is independent of typelib.
"""

from __future__ import annotations

import __future__ as _future
import collections
import contextlib
import dataclasses
import copy
import datetime
import decimal
import enum
import fractions
import itertools
import pathlib
import re
import sys
import types
import typing
import uuid

from hypothesis import strategies as st

DOTTED_MODULES = True  # module M1 (M3, ...) of every program is `vupkg<tag>.m1`: a module inside a package
PATTERN_FLAGS = False  # set by C13 in its worker processes (see scalar_values)
SCALARS = ["int", "bool", "float", "str", "Decimal", "Fraction", "UUID", "PurePosixPath", "PureWindowsPath",
           "Path", "Pattern", "date", "datetime", "time", "timedelta"]
SCALAR_EXPR = {
    "int": "int", "bool": "bool", "float": "float", "str": "str", "Decimal": "decimal.Decimal",
    "Fraction": "fractions.Fraction", "UUID": "uuid.UUID", "PurePosixPath": "pathlib.PurePosixPath",
    "PureWindowsPath": "pathlib.PureWindowsPath", "Path": "pathlib.Path", "Pattern": "re.Pattern",
    "date": "datetime.date", "datetime": "datetime.datetime", "time": "datetime.time",
    "timedelta": "datetime.timedelta", "bytes": "bytes", "bytearray": "bytearray", "memoryview": "memoryview",
}
SCALAR_CLASS = {
    "int": int, "bool": bool, "float": float, "str": str, "Decimal": decimal.Decimal,
    "Fraction": fractions.Fraction, "UUID": uuid.UUID, "PurePosixPath": pathlib.PurePosixPath,
    "PureWindowsPath": pathlib.PureWindowsPath, "Path": pathlib.Path, "Pattern": re.Pattern,
    "date": datetime.date, "datetime": datetime.datetime, "time": datetime.time,
    "timedelta": datetime.timedelta, "bytes": bytes, "bytearray": bytearray, "memoryview": memoryview,
}
HASHABLE_SCALARS = [s for s in SCALARS]  # all scalar values are hashable
KEY_SCALARS = ["str", "int", "bool", "float", "Decimal", "Fraction", "UUID", "PurePosixPath", "date", "datetime",
               "time", "timedelta"]

SPELLINGS = {
    "list": ["list", "typing.List", "typing.Sequence", "typing.MutableSequence", "typing.Collection",
             "typing.Iterable", "collections.abc.Sequence", "collections.abc.MutableSequence",
             "collections.abc.Collection", "collections.abc.Iterable"],
    "set": ["set", "typing.Set", "typing.AbstractSet", "typing.MutableSet", "collections.abc.Set",
            "collections.abc.MutableSet"],
    "frozenset": ["frozenset", "typing.FrozenSet"],
    "deque": ["collections.deque", "typing.Deque"],
    "vtuple": ["tuple", "typing.Tuple"],
    "tuple": ["tuple", "typing.Tuple"],
    "dict": ["dict", "typing.Dict", "typing.Mapping", "typing.MutableMapping", "collections.abc.Mapping",
             "collections.abc.MutableMapping"],
}
ORIGIN = {"list": list, "set": set, "frozenset": frozenset, "deque": collections.deque, "vtuple": tuple,
          "tuple": tuple, "dict": dict}
CLASS_FLAVOURS = ["dataclass", "dc_slots", "dc_kwonly", "dc_frozen", "namedtuple", "typeddict",
                  "typeddict_partial", "plain", "slots"]
HASHABLE_FLAVOURS = ["dc_frozen", "namedtuple"]
WRAPPERS = ["newtype", "alias", "stralias", "final", "classvar"]

PRELUDE = ("import collections, collections.abc, dataclasses, datetime, decimal, enum, fractions, pathlib, re, "
           "typing, typing_extensions, uuid\nfrom typing import *\n")

_counter = itertools.count()


# ------------------------------------------------------------------------------------------------
# spec helpers
# ------------------------------------------------------------------------------------------------

def S(t):
    return {"k": "scalar", "t": t}


NONE = {"k": "none"}


def walk(spec):
    yield spec
    for c in spec.get("a", ()):
        yield from walk(c)
    for f in spec.get("fields", ()):
        yield from walk(f["t"])


def depth(spec) -> int:
    kids = list(spec.get("a", ())) + [f["t"] for f in spec.get("fields", ())]
    return 1 + max((depth(c) for c in kids), default=0)


def size(spec) -> int:
    return sum(1 for _ in walk(spec))


def has_kind(spec, *kinds) -> bool:
    return any(s["k"] in kinds for s in walk(spec))


def spec_key(spec) -> str:
    import json
    return json.dumps(spec, sort_keys=True, default=repr)


def strip(spec):
    """The spec with NewType/alias/Final/ClassVar wrappers removed at the top."""
    while spec["k"] in ("newtype", "alias", "stralias", "final", "classvar", "latealias"):
        spec = spec["a"][0]
    return spec


def is_hashable_spec(spec) -> bool:
    s = strip(spec)
    k = s["k"]
    if k in ("scalar", "enum", "literal", "none"):
        return True
    if k in ("tuple", "vtuple", "frozenset"):
        return all(is_hashable_spec(c) for c in s["a"])
    if k in ("optional", "union"):
        return all(is_hashable_spec(c) for c in s["a"])
    if k == "class":
        return s["flavour"] in HASHABLE_FLAVOURS and all(is_hashable_spec(f["t"]) for f in s["fields"])
    return False


# ------------------------------------------------------------------------------------------------
# program synthesis
# ------------------------------------------------------------------------------------------------

class Materialised:
    """Real modules + the evaluated root annotation for one spec."""

    def __init__(self, spec, tag=None):
        self.spec = spec
        self.tag = tag or f"{next(_counter)}"
        self.modules: dict[int, types.ModuleType] = {}
        self.sources: dict[int, list[str]] = collections.defaultdict(list)
        self.classes: dict[tuple, type] = {}     # (mod, name) -> class / enum / alias object
        self.class_specs: dict[tuple, dict] = {}
        self._declared: set = set()
        self._future: dict[int, bool] = {}
        self._late: list = []
        self._packages: list = []
        try:
            self._collect(spec)
            for ls in self._late:   # named aliases over classes that had to exist first
                inner = self.expr(ls["a"][0], at_mod=ls["mod"], quote_refs=False)
                if ls.get("wrapper") == "newtype":
                    self._exec(ls["mod"], f"{ls['name']} = typing.NewType({ls['name']!r}, {inner})\n")
                else:
                    self._exec(ls["mod"], f"{ls['name']} = typing.TypeAliasType({ls['name']!r}, {inner})\n")
                self.classes[(ls["mod"], ls["name"])] = self.modules[ls["mod"]].__dict__[ls["name"]]
            self.root_expr = self.expr(spec, at_mod=None, quote_refs=False)
            self.ns = self._eval_ns()
            self.root = eval(self.root_expr, self.ns)  # noqa: S307
        except BaseException:
            self.close()
            raise

    # -- modules ----------------------------------------------------------------------------
    def modname(self, i):
        # odd-numbered modules live in a package (a dotted module name), like most real modules
        return f"vupkg{self.tag}.m{i}" if (DOTTED_MODULES and i % 2 == 1) else f"vu{self.tag}_m{i}"

    def _module(self, i):
        m = self.modules.get(i)
        if m is None:
            m = types.ModuleType(self.modname(i))
            sys.modules[m.__name__] = m
            if "." in m.__name__:
                pkg_name = m.__name__.rsplit(".", 1)[0]
                pkg = sys.modules.get(pkg_name)
                if pkg is None:
                    pkg = types.ModuleType(pkg_name)
                    pkg.__path__ = []
                    sys.modules[pkg_name] = pkg
                    self._packages.append(pkg_name)
                setattr(pkg, m.__name__.rsplit(".", 1)[1], m)
            exec(PRELUDE, m.__dict__)  # noqa: S102
            self.modules[i] = m
            for j, other in self.modules.items():
                other.__dict__[f"M{i}"] = m
                m.__dict__[f"M{j}"] = other
        return m

    def _eval_ns(self):
        ns = {}
        exec(PRELUDE, ns)  # noqa: S102
        for i, m in self.modules.items():
            ns[f"M{i}"] = m
        return ns

    def close(self):
        for m in self.modules.values():
            sys.modules.pop(m.__name__, None)
        for pk in self._packages:
            sys.modules.pop(pk, None)
        self.modules = {}

    def __enter__(self):
        return self

    def __exit__(self, *a):
        self.close()

    def source(self) -> str:
        out = []
        for i in sorted(self.sources):
            out.append(f"# ---- module M{i} ({self.modname(i)})" + ("  [from __future__ import annotations]" if self._future.get(i) else ""))
            out.extend(self.sources[i])
        out.append(f"# root: {self.root_expr}")
        return "\n".join(out)

    # -- declarations -----------------------------------------------------------------------
    def _exec(self, mod_i, src, future=False):
        m = self._module(mod_i)
        self.sources[mod_i].append(src)
        flags = _future.annotations.compiler_flag if future else 0
        code = compile(src, m.__name__, "exec", flags=flags, dont_inherit=True)
        exec(code, m.__dict__)  # noqa: S102

    def _collect(self, spec):
        """Declare everything `spec` needs, members first (post-order)."""
        k = spec["k"]
        if k == "ref":
            return
        if k == "latealias":
            key = (spec["mod"], spec["name"])
            if key not in self._declared:
                self._declared.add(key)
                self.class_specs[key] = spec
                self._module(spec["mod"])
                self._late.append(spec)
                self._collect(spec["a"][0])
            return
        if k == "class":
            key = (spec["mod"], spec["name"])
            if key in self._declared:
                return
            self._declared.add(key)
            self.class_specs[key] = spec
            for f in spec["fields"]:
                self._collect(f["t"])
            self._declare_class(spec)
            return
        for c in spec.get("a", ()):
            self._collect(c)
        if k == "enum":
            key = (spec["mod"], spec["name"])
            if key in self._declared:
                return
            self._declared.add(key)
            base = {"plain": "enum.Enum", "int": "enum.IntEnum", "str": "str, enum.Enum"}[spec["flavour"]]
            body = "\n".join(f"    {n} = {v!r}" for n, v in spec["members"])
            self._exec(spec["mod"], f"class {spec['name']}({base}):\n{body}\n")
            self.classes[key] = self.modules[spec["mod"]].__dict__[spec["name"]]
            self.class_specs[key] = spec
        elif k in ("newtype", "alias", "stralias"):
            key = (spec["mod"], spec["name"])
            if key in self._declared:
                return
            self._declared.add(key)
            # the body of a string-valued alias is evaluated lazily: references inside stay bare
            a0 = spec["a"][0]
            # a wrapper directly over an already declared class names the class itself, not a string
            declared = a0["k"] == "ref" and (a0["mod"], a0["name"]) in self.classes
            inner = self.expr(a0, at_mod=spec["mod"], quote_refs=(k != "stralias" and not declared))
            n = spec["name"]
            self.class_specs[key] = spec
            if k == "newtype":
                src = f"{n} = typing.NewType({n!r}, {inner})\n"
            elif k == "alias":
                src = f"{n} = typing.TypeAliasType({n!r}, {inner})\n"
            elif spec.get("lazy"):
                # PEP 695: the value is an expression evaluated on first use (it may mention the alias itself)
                src = f"type {n} = {inner}\n"
            else:
                src = f"{n} = typing.TypeAliasType({n!r}, {inner!r})\n"
            self._exec(spec["mod"], src)
            self.classes[key] = self.modules[spec["mod"]].__dict__[n]

    def _declare_class(self, spec):
        """`spec["inherit"] = n`: the first n fields live in a synthesised base class `<name>_Base` of the same flavour
        (for TypedDicts `spec["base_flavour"]` may give the base the other totality); everything else in the harness
        keeps looking at `spec["fields"]`, the fields of the class as its users see them."""
        n_inh = int(spec.get("inherit") or 0)
        if n_inh and spec["flavour"] != "namedtuple":
            bfl = spec.get("base_flavour") or spec["flavour"]
            # `spec["base_mod"]`: the base class lives in another module (its annotations are resolved there)
            bmod = spec.get("base_mod", spec["mod"])
            self._declare_one(spec, spec["name"] + "_Base", bfl, spec["fields"][:n_inh], (), None, bmod)
            bexpr = spec["name"] + "_Base" if bmod == spec["mod"] else f"M{bmod}.{spec['name']}_Base"
            self._declare_one(spec, spec["name"], spec["flavour"], spec["fields"][n_inh:], spec["fields"][:n_inh], bexpr, spec["mod"])
        else:
            self._declare_one(spec, spec["name"], spec["flavour"], spec["fields"], (), None, spec["mod"])
        ns = self.modules[spec["mod"]].__dict__
        self.classes[(spec["mod"], spec["name"])] = getattr(ns[spec["name"] + "_Ns"], spec["name"]) if spec.get("nest") else ns[spec["name"]]

    def _declare_one(self, spec, name, fl, fields, inherited, base, mod):
        future = bool(spec.get("future"))
        self._future[mod] = self._future.get(mod, False) or future
        lines = []

        def ann(f):
            e = self.expr(f["t"], at_mod=mod, quote_refs=not future)
            if f.get("final") and fl not in ("typeddict", "typeddict_partial", "namedtuple"):
                e = f"typing.Final[{e}]"
            # the markers say what the field is for users of the (child) class; the declaring class may already imply it
            tmod = "typing_extensions" if spec.get("te") else "typing"
            if f.get("notreq") and fl == "typeddict":
                e = f"{tmod}.NotRequired[{e}]"
            if f.get("req") and fl == "typeddict_partial":
                e = f"{tmod}.Required[{e}]"
            if has_kind(f["t"], "ref") and not future and f.get("quote_whole") and not has_kind(f["t"], "literal"):
                e = repr(e.replace("'", ""))
            return e

        def dflt(f):
            return default_src(f["t"], lambda e: self.expr(e, at_mod=mod))

        classvars = spec.get("classvars", ()) if name == spec["name"] else ()

        def cv_line(cv):
            # "name" -> an int class variable; {"n": name, "t": spec} -> a class variable of that type holding its canonical default
            if isinstance(cv, str):
                return f"    {cv}: typing.ClassVar[int] = 7"
            e = self.expr(cv["t"], at_mod=mod, quote_refs=not future)
            return f"    {cv['n']}: typing.ClassVar[{e}] = {default_src(cv['t'], lambda x: self.expr(x, at_mod=mod))}"
        if fl in ("dataclass", "dc_slots", "dc_kwonly", "dc_frozen"):
            opts = {"dataclass": "", "dc_slots": "slots=True", "dc_kwonly": "kw_only=True", "dc_frozen": "frozen=True"}[fl]
            lines.append(f"@dataclasses.dataclass({opts})")
            lines.append(f"class {name}({base}):" if base else f"class {name}:")
            for f in fields:
                d = f" = {dflt(f)}" if f.get("default") else ""
                lines.append(f"    {f['n']}: {ann(f)}{d}")
            for cv in classvars:
                lines.append(cv_line(cv))
            if not fields and not classvars:
                lines.append("    pass")
        elif fl == "namedtuple":
            lines.append(f"class {name}(typing.NamedTuple):")
            for f in fields:
                lines.append(f"    {f['n']}: {ann(f)}" + (f" = {dflt(f)}" if f.get("default") else ""))
            if not fields:
                lines.append("    pass")
        elif fl in ("typeddict", "typeddict_partial"):
            total = "" if fl == "typeddict" else ", total=False"
            # (`te`: declared through the typing_extensions back-port, which below Python 3.13 is an implementation of its own)
            lines.append(f"class {name}({base or ('typing_extensions.TypedDict' if spec.get('te') else 'typing.TypedDict')}{total}):")
            for f in fields:
                lines.append(f"    {f['n']}: {ann(f)}")
            if not fields:
                lines.append("    pass")
        elif fl in ("plain", "slots", "sigonly"):
            lines.append(f"class {name}({base}):" if base else f"class {name}:")
            if fl == "slots":
                lines.append(f"    __slots__ = {tuple(f['n'] for f in fields)!r}")
            if fl != "sigonly":
                for f in fields:
                    lines.append(f"    {f['n']}: {ann(f)}")
                for cv in classvars:
                    lines.append(cv_line(cv))
            fields = [*inherited, *fields]   # the constructor, __eq__ and __repr__ of a subclass cover every field
            if fl == "sigonly":
                # no class-level annotations: the fields are what the constructor's signature says, written as text
                q = lambda f: repr(self.expr(f["t"], at_mod=mod, quote_refs=False))  # noqa: E731
                params = ", ".join(f"{f['n']}: {q(f)}" + (f" = {dflt(f)}" if f.get("default") else "") for f in fields)
            else:
                params = ", ".join(f"{f['n']}" + (f"={dflt(f)}" if f.get("default") else "") for f in fields)
            # required parameters must precede defaulted ones: make everything keyword-only
            lines.append(f"    def __init__(self{', *, ' + params if params else ''}):")
            for f in fields:
                lines.append(f"        self.{f['n']} = {f['n']}")
            if not fields:
                lines.append("        pass")
            names = tuple(f["n"] for f in fields)
            lines.append("    def __eq__(self, other):")
            lines.append(f"        return type(other) is type(self) and all(getattr(self, n) == getattr(other, n) for n in {names!r})")
            lines.append("    def __repr__(self):")
            lines.append(f"        return type(self).__name__ + '(' + ', '.join(f'{{n}}={{getattr(self, n)!r}}' for n in {names!r}) + ')'")
            lines.append("    __hash__ = None")
        else:
            raise ValueError(fl)
        if spec.get("methods") and name == spec["name"] and not fl.startswith("typeddict"):
            # behaviour next to the data: instances can be called (which makes the class a virtual subclass of
            # collections.abc.Callable), a method, a property, a class method; `falsy`: instances are false
            lines += ["    def __call__(self, *a, **kw):", "        return (a, kw)",
                      "    def describe_(self, n: int = 0) -> str:", "        return type(self).__name__ * n",
                      "    @property", "    def summary_(self) -> int:", "        return 17",
                      "    @classmethod", "    def make_(cls, *a, **kw):", "        return cls(*a, **kw)"]
            if spec["methods"] == "falsy":
                lines += ["    def __bool__(self):", "        return False"]
        if spec.get("nest") and name == spec["name"]:
            lines = [f"class {name}_Ns:"] + ["    " + ln for ln in lines]
        self._exec(mod, "\n".join(lines) + "\n", future=future)

    # -- annotation expression --------------------------------------------------------------
    def expr(self, spec, at_mod, quote_refs=True) -> str:
        """Source text of the annotation, as seen from module `at_mod` (None = harness namespace)."""
        k = spec["k"]

        def named(s):
            n = s["name"]
            target = s if s["k"] == "class" else self.class_specs.get((s["mod"], s["name"]), s)
            if target.get("k") == "class" and target.get("nest"):
                n = f"{n}_Ns.{n}"      # a class declared in the body of another class
            return n if at_mod == s["mod"] else f"M{s['mod']}.{n}"

        E = lambda s: self.expr(s, at_mod, quote_refs)  # noqa: E731
        if k == "scalar":
            return SCALAR_EXPR[spec["t"]]
        if k == "none":
            return "None"
        if k in ("enum", "class", "newtype", "alias", "stralias"):
            return named(spec)
        if k in ("ref", "latealias"):
            n = named(spec)
            return repr(n) if quote_refs else n
        if k == "literal":
            # "bare": the name as `from typing import *` binds it (a string-valued alias then reads "Literal[...]")
            return ("Literal[" if spec.get("sp") == "bare" else "typing.Literal[") + ", ".join(repr(v) for v in spec["values"]) + "]"
        if k in ("list", "set", "frozenset", "deque"):
            return f"{spec.get('sp') or SPELLINGS[k][0]}[{E(spec['a'][0])}]"
        if k == "vtuple":
            return f"{spec.get('sp') or 'tuple'}[{E(spec['a'][0])}, ...]"
        if k == "tuple":
            return f"{spec.get('sp') or 'tuple'}[" + ", ".join(E(c) for c in spec["a"]) + "]"
        if k == "dict":
            return f"{spec.get('sp') or 'dict'}[{E(spec['a'][0])}, {E(spec['a'][1])}]"
        if k == "optional":
            sp = spec.get("sp", "Optional")
            x = E(spec["a"][0])
            if sp in ("pipe", "pipe_first") and x.startswith(("'", '"')):
                sp = "Optional"  # a quoted reference cannot be an operand of |
            return {"Optional": f"typing.Optional[{x}]", "pipe": f"{x} | None", "pipe_first": f"None | {x}",
                    "Union": f"typing.Union[{x}, None]"}[sp]
        if k == "union":
            ms = [E(c) for c in spec["a"]]
            if spec.get("sp") == "pipe" and not any(m.startswith(("'", '"')) for m in ms) and not all(m == "None" for m in ms):
                if ms[0] == "None" and len(ms) > 1 and ms[1] == "None":
                    return "typing.Union[" + ", ".join(ms) + "]"
                return " | ".join(ms)
            return "typing.Union[" + ", ".join(ms) + "]"
        if k == "final":
            return f"typing.Final[{E(spec['a'][0])}]"
        if k == "classvar":
            return f"typing.ClassVar[{E(spec['a'][0])}]"
        raise ValueError(k)

    # -- lookups ----------------------------------------------------------------------------
    def cls(self, spec):
        return self.classes[(spec["mod"], spec["name"])]

    def resolve(self, spec):
        """class spec a ref points to"""
        if spec["k"] == "ref":
            return self.class_specs[(spec["mod"], spec["name"])]
        return spec

    def alias_of(self, obj) -> str | None:
        m = getattr(obj, "__module__", None)
        for i, mod in self.modules.items():
            if mod.__name__ == m:
                return f"M{i}"
        return None

    def annotation(self, spec):
        """The real annotation object for a (sub)spec of this program."""
        if spec["k"] == "ref":
            return self.cls(spec)
        return eval(self.expr(spec, at_mod=None, quote_refs=False), dict(self.ns))  # noqa: S307

    def eval(self, src: str):
        return eval(src, dict(self.ns))  # noqa: S307


def materialise(spec, tag=None) -> Materialised:
    return Materialised(spec, tag)


# ------------------------------------------------------------------------------------------------
# value rendering: to_src
# ------------------------------------------------------------------------------------------------

def to_src(v, mat: Materialised | None = None) -> str:
    """An evaluable Python expression for `v` (in mat.ns)."""
    R = lambda x: to_src(x, mat)  # noqa: E731
    t = type(v)
    if v is None or t in (bool, int, str, bytes):
        return repr(v)
    if t is float:
        return repr(v) if v == v and v not in (float("inf"), float("-inf")) else f"float({str(v)!r})"
    if isinstance(v, enum.Enum):
        a = mat.alias_of(type(v)) if mat else None
        return f"{a + '.' if a else ''}{type(v).__qualname__}.{v.name}"
    if t is decimal.Decimal:
        return f"decimal.Decimal({str(v)!r})"
    if t is fractions.Fraction:
        return f"fractions.Fraction({v.numerator}, {v.denominator})"
    if t is uuid.UUID:
        return f"uuid.UUID(int={v.int})"
    if isinstance(v, pathlib.PurePath):
        return f"pathlib.{t.__name__}({str(v)!r})"
    if isinstance(v, re.Pattern):
        return f"re.compile({v.pattern!r})" if v.flags == re.compile("").flags else f"re.compile({v.pattern!r}, {v.flags})"
    if isinstance(v, (datetime.datetime, datetime.time)):
        tz = v.tzinfo
        if tz is None:
            tzs = "None"
        else:
            off = v.utcoffset()
            tzs = "datetime.timezone.utc" if (off == datetime.timedelta(0) and tz is datetime.timezone.utc) else \
                f"datetime.timezone(datetime.timedelta(days={off.days}, seconds={off.seconds}, microseconds={off.microseconds}))"
        mod = "datetime" if t.__module__ == "datetime" else t.__module__
        if isinstance(v, datetime.datetime):
            return (f"{mod}.{t.__name__}({v.year}, {v.month}, {v.day}, {v.hour}, {v.minute}, {v.second}, "
                    f"{v.microsecond}, tzinfo={tzs}, fold={v.fold})")
        return f"{mod}.{t.__name__}({v.hour}, {v.minute}, {v.second}, {v.microsecond}, tzinfo={tzs}, fold={v.fold})"
    if isinstance(v, datetime.date):
        mod = "datetime" if t.__module__ == "datetime" else t.__module__
        return f"{mod}.{t.__name__}({v.year}, {v.month}, {v.day})"
    if isinstance(v, datetime.timedelta):
        return f"datetime.timedelta(days={v.days}, seconds={v.seconds}, microseconds={v.microseconds})"
    if t is bytearray:
        return f"bytearray({bytes(v)!r})"
    if t is memoryview:
        return f"memoryview({to_src(v.obj, mat)})"
    if isinstance(v, tuple) and hasattr(v, "_fields"):
        a = mat.alias_of(t) if mat else None
        return f"{a + '.' if a else ''}{t.__qualname__}(" + ", ".join(f"{f}={R(x)}" for f, x in zip(v._fields, v)) + ")"
    if t is list:
        return "[" + ", ".join(R(x) for x in v) + "]"
    if t is tuple:
        return "(" + ", ".join(R(x) for x in v) + ("," if len(v) == 1 else "") + ")"
    if t is set:
        return "{" + ", ".join(sorted(R(x) for x in v)) + "}" if v else "set()"
    if t is frozenset:
        return "frozenset([" + ", ".join(sorted(R(x) for x in v)) + "])"
    if t is collections.deque:
        return "collections.deque([" + ", ".join(R(x) for x in v) + "])"
    if t is dict:
        return "{" + ", ".join(f"{R(k)}: {R(x)}" for k, x in v.items()) + "}"
    if t is collections.OrderedDict:
        return "collections.OrderedDict([" + ", ".join(f"({R(k)}, {R(x)})" for k, x in v.items()) + "])"
    a = mat.alias_of(t) if mat else None
    if a is not None:
        if dataclasses.is_dataclass(v):
            names = [f.name for f in dataclasses.fields(v) if f.init]
        else:
            names = [n for c in reversed(t.__mro__) for n in c.__dict__.get("__annotations__", {})]
            if not names:   # fields declared by the constructor's signature only
                import inspect as _inspect
                names = [n for n in _inspect.signature(t).parameters if hasattr(v, n)]
        return f"{a}.{t.__qualname__}(" + ", ".join(f"{n}={R(getattr(v, n))}" for n in names if hasattr(v, n)) + ")"
    if isinstance(v, (int, float, str)):
        base = next(b for b in (bool, int, float, str) if isinstance(v, b))
        return f"{t.__module__}.{t.__qualname__}({base(v)!r})"
    return f"<unrenderable {t.__module__}.{t.__qualname__}: {v!r}>"


# ------------------------------------------------------------------------------------------------
# value strategies
# ------------------------------------------------------------------------------------------------

LOOKALIKE_STRINGS = ["1", "1.0", "null", "None", "true", "True", "false", "[1]", '{"a":1}', "2020-01-01",
                     "PT1S", "12:00:00", "ab", "a", "", " ", "\t", "1,2", "(1, 2)", "-1", "1e5", "0x10", "nan",
                     "inf", "Infinity", '"quoted"', "'q'", "\x00", "é", "\u2028", "日本", "P1D", "[]", "{}", "()",
                     "1_000", "0", "00", "+1", "2020-01-01T00:00:00+00:00", "a b", "_k", "__", "_", "_private",
                     # texts of numbers of *another* number class, in other bases, as a ratio
                     "1.5", "1.0", "-0.25", "2.", ".5", "1E3", "0x1F", "0b11", "0o7", "1/2", "-3/4", "1e-3", "٣"]


def _tz():
    return st.one_of(
        st.just(datetime.timezone.utc),
        st.integers(-1439, 1439).map(lambda m: datetime.timezone(datetime.timedelta(minutes=m))),
        # includes pairs exactly 24 h apart (+14:00/-10:00, +13:00/-11:00, +12:00/-12:00, +05:30/-18:30)
        st.sampled_from([60, -60, 330, 345, -570, 840, -600, 780, -660, 720, -720, -1110, 1439, -1439, 1, -1]).map(
            lambda m: datetime.timezone(datetime.timedelta(minutes=m))),
    )


def _safe_dt(d, t, tz):
    dt = datetime.datetime.combine(d, t, tzinfo=tz)
    try:
        dt.astimezone(datetime.timezone.utc)
        dt.utctimetuple()
    except (OverflowError, ValueError):
        dt = dt.replace(year=min(max(dt.year, 2), 9998))
    return dt


_EDGE_DTS = [datetime.datetime.min.replace(tzinfo=datetime.timezone(datetime.timedelta(hours=1))),
             datetime.datetime(1, 1, 1, 5, 0, tzinfo=datetime.timezone(datetime.timedelta(hours=5, minutes=30))),
             datetime.datetime.max.replace(tzinfo=datetime.timezone(datetime.timedelta(hours=-1))),
             datetime.datetime(9999, 12, 31, 20, 59, 59, tzinfo=datetime.timezone(datetime.timedelta(hours=-8))),
             datetime.datetime.min.replace(tzinfo=datetime.timezone(datetime.timedelta(minutes=1))),
             datetime.datetime.max.replace(tzinfo=datetime.timezone(datetime.timedelta(minutes=-1439)))]


def scalar_values(t: str, *, json64: bool = False):
    if t == "int":
        if json64:
            return st.one_of(st.integers(-2 ** 63, 2 ** 63 - 1), st.sampled_from([0, 1, -1, 2 ** 63 - 1, -2 ** 63, 2 ** 53 + 1]))
        return st.one_of(st.integers(-2 ** 63, 2 ** 63 - 1), st.integers(-1000, 1000), st.integers(),
                         st.sampled_from([0, 1, -1, 2 ** 63, -2 ** 63 - 1, 10 ** 20, -10 ** 40, 10 ** 400]))
    if t == "bool":
        return st.booleans()
    if t == "float":
        return st.one_of(st.floats(allow_nan=False, allow_infinity=False),
                         st.sampled_from([0.0, -0.0, 1.0, 1e308, -1e308, 5e-324, 1e-7, 0.1, 1e16, 1.5, 2.0 ** 53, 123456.789]))
    if t == "str":
        return st.one_of(st.sampled_from(LOOKALIKE_STRINGS),
                         st.text(alphabet=st.characters(exclude_categories=["Cs"]), max_size=20),
                         st.text(alphabet="ab1 ,[]{}\":-.", max_size=12))
    if t == "Decimal":
        return st.one_of(st.decimals(allow_nan=False, allow_infinity=False),
                         st.sampled_from(["0", "-0", "-0.000", "1E+30", "1E-30", "1.10", "100", "0.1", "-1.5E-7", "12345678901234567890.123456789"]).map(decimal.Decimal))
    if t == "Fraction":
        return st.one_of(st.fractions(), st.sampled_from([fractions.Fraction(0), fractions.Fraction(1, 3), fractions.Fraction(-7, 2), fractions.Fraction(10 ** 20, 3)]))
    if t == "UUID":
        return st.one_of(st.integers(0, 2 ** 128 - 1).map(lambda i: uuid.UUID(int=i)),
                         st.sampled_from([uuid.UUID(int=0), uuid.UUID(int=2 ** 128 - 1), uuid.UUID(int=1)]))
    if t in ("PurePosixPath", "PureWindowsPath", "Path"):
        cls = SCALAR_CLASS[t]
        seg = st.sampled_from(["a", "b.txt", "1", "null", "..", "x y", "1.5", "true", "dir", "0", "é", "[1]", '"a"', "'q'", '"1"'])
        root = st.sampled_from(["", "/"] if t != "PureWindowsPath" else ["", "C:/", "/", "//srv/share/"])
        return st.builds(lambda r, segs: cls(r + "/".join(segs)) if (r or segs) else cls("."), root, st.lists(seg, max_size=4))
    if t == "Pattern":
        plain = st.sampled_from(["a+", r"^\d+$", "[a-z]*", "(x|y)", "", "1", "null", r"\w+", "[1]", "a{2,3}", r"\[1\]", "true"]).map(re.compile)
        if PATTERN_FLAGS:
            # compile flags are not part of the wire form (so not of U's round-trip values); as *inputs that are already
            # valid* (C13) compiled patterns come with any flags
            flagged = st.builds(re.compile, st.sampled_from(["ab", "^x$", "a.b", "[a-z]+"]),
                                st.sampled_from([re.I, re.M | re.S, re.X, re.A, re.I | re.M]))
            return st.one_of(plain, flagged)
        return plain
    if t == "date":
        return st.one_of(st.dates(), st.sampled_from([datetime.date.min, datetime.date.max, datetime.date(1970, 1, 1), datetime.date(999, 12, 31), datetime.date(2000, 2, 29)]))
    if t == "datetime":
        return st.one_of(
            st.builds(_safe_dt, st.dates(), st.times(), _tz()),
            st.builds(_safe_dt, st.sampled_from([datetime.date(1970, 1, 1), datetime.date(2, 1, 1), datetime.date(9998, 12, 31), datetime.date(999, 1, 1)]),
                      st.sampled_from([datetime.time(0, 0), datetime.time(23, 59, 59, 999999), datetime.time(12, 0, 0, 1)]), _tz()),
            # wall clocks at the ends of the calendar whose UTC instant is outside it (datetime.min east of Greenwich,
            # datetime.max west of it): valid aware datetimes, but nothing which goes through UTC can handle them
            st.sampled_from(_EDGE_DTS),
        )
    if t == "time":
        return st.one_of(st.times(timezones=_tz()), st.builds(lambda tm, tz, f: tm.replace(tzinfo=tz, fold=f),
                         st.sampled_from([datetime.time(0, 0), datetime.time(23, 59, 59, 999999), datetime.time(1, 2, 3, 4)]), _tz(), st.integers(0, 1)))
    if t == "timedelta":
        return st.one_of(
            st.timedeltas(),
            st.builds(lambda w, d, s, us, neg: (-1 if neg else 1) * datetime.timedelta(weeks=w, days=d, seconds=s, microseconds=us),
                      st.integers(0, 5), st.integers(0, 8), st.sampled_from([0, 1, 59, 60, 3599, 3600, 86399]),
                      st.sampled_from([0, 1, 999999, 500000]), st.booleans()),
            st.sampled_from([datetime.timedelta(0), datetime.timedelta.max, datetime.timedelta.min, datetime.timedelta(days=7),
                             datetime.timedelta(days=14, seconds=1), datetime.timedelta(seconds=59, microseconds=999999),
                             datetime.timedelta(microseconds=-1), datetime.timedelta(days=365)]),
        )
    if t in ("bytes", "bytearray", "memoryview"):
        cls = SCALAR_CLASS[t]
        return st.binary(max_size=24).map(lambda b: cls(b) if t != "memoryview" else memoryview(b))
    raise ValueError(t)


def values(spec, mat: Materialised, *, budget: int = 3, json64: bool = False, max_elems: int = 4):
    """Strategy of valid instances of `spec` made of exactly the annotated classes.

    `budget` bounds how many times recursion through a `ref` is followed.
    """
    V = lambda s, b=budget: values(s, mat, budget=b, json64=json64, max_elems=max_elems)  # noqa: E731
    k = spec["k"]
    if k == "scalar":
        return scalar_values(spec["t"], json64=json64)
    if k == "none":
        return st.none()
    if k == "enum":
        return st.sampled_from(list(mat.cls(spec)))
    if k == "literal":
        return st.sampled_from(spec["values"])
    if k in ("newtype", "alias", "stralias", "final", "classvar", "latealias"):
        return V(spec["a"][0])
    if k == "ref":
        if budget <= 0:
            raise _Exhausted()
        return values(mat.resolve(spec), mat, budget=budget - 1, json64=json64, max_elems=max_elems)
    if k in ("list", "deque", "vtuple", "set", "frozenset"):
        try:
            inner = V(spec["a"][0])
        except _Exhausted:
            inner = None
        ctor = {"list": list, "deque": collections.deque, "vtuple": tuple, "set": set, "frozenset": frozenset}[k]
        if inner is None:
            return st.just(ctor())
        if k in ("set", "frozenset"):
            return st.lists(inner, max_size=max_elems).map(lambda xs: ctor(_dedupe_hashable(xs)))
        return st.lists(inner, max_size=max_elems).map(ctor)
    if k == "tuple":
        return st.tuples(*[V(c) for c in spec["a"]])
    if k == "dict":
        try:
            vals = V(spec["a"][1])
        except _Exhausted:
            return st.just({})
        return st.lists(st.tuples(V(spec["a"][0]), vals), max_size=max_elems).map(_dict_from_pairs)
    if k == "optional":
        try:
            inner = V(spec["a"][0])
        except _Exhausted:
            return st.none()
        return st.one_of(st.none(), inner, inner)
    if k == "union":
        alts = []
        for c in spec["a"]:
            try:
                alts.append(V(c))
            except _Exhausted:
                pass
        if not alts:
            raise _Exhausted()
        if any(strip(c) == S("str") for c in spec["a"]):
            # a union with a `str` member: strings that are the text of another member's value ("5" next to int, an ISO date
            # next to date) are values of the str member - and the ones a union is most likely to hand to the wrong member
            for c in spec["a"]:
                sc = strip(c)
                if sc["k"] == "scalar" and sc["t"] in ("int", "float", "Decimal", "Fraction", "UUID", "date", "datetime", "time", "timedelta", "bool"):
                    try:
                        alts.append(V(c).map(lambda x, sc=sc: str(plain_wire(sc, x, mat))))
                    except _Exhausted:
                        pass
                if sc["k"] == "scalar" and sc["t"] in ("int", "float", "Decimal", "Fraction"):
                    # ... and texts of numbers a sibling number class does NOT read ("1.5" next to int, "1/2" next to float)
                    alts.append(st.sampled_from(["1.5", "1.0", "1e3", "-0.25", "2.", ".5", "0x1F", "1/2", "-3/4", "1_0", "1e-3", "0b11"]))
                if sc["k"] == "enum":
                    # ... and the *names* of an Enum sibling's members (a text is a member's value or it is no member)
                    alts.append(st.sampled_from([n for n, _ in sc["members"]]))
        return st.one_of(*alts)
    if k == "class":
        C = mat.cls(spec)
        fl = spec["flavour"]
        parts = {}
        for f in spec["fields"]:
            try:
                fv = V(f["t"])
            except _Exhausted:
                if f.get("default") or f.get("notreq") or (fl == "typeddict_partial" and not f.get("req")):
                    continue
                raise
            parts[f["n"]] = fv
        opt = {f["n"] for f in spec["fields"]
               if (f.get("notreq") or (fl == "typeddict_partial" and not f.get("req"))) and fl in ("typeddict", "typeddict_partial")}

        def build(kw, drop):
            kw = {n: v for n, v in kw.items() if not (n in opt and n in drop)}
            return C(**kw)

        return st.builds(build, st.fixed_dictionaries(parts), st.sets(st.sampled_from(sorted(opt)), max_size=len(opt)) if opt else st.just(set()))
    raise ValueError(k)


class _Exhausted(Exception):
    pass


def _dedupe_hashable(xs):
    out, seen = [], set()
    for x in xs:
        try:
            if x not in seen:
                seen.add(x)
                out.append(x)
        except TypeError:
            continue
    return out


def _dict_from_pairs(pairs):
    d = {}
    for k, v in pairs:
        try:
            # True/1/1.0 collide as keys; keep the first to stay a valid dict[K, V]
            if k not in d:
                d[k] = v
        except TypeError:
            continue
    return d


# ------------------------------------------------------------------------------------------------
# conforms: the independent structural type checker
# ------------------------------------------------------------------------------------------------

def conforms(spec, r, mat: Materialised, path="$", _depth=0, strict=False) -> str | None:
    """None if `r` structurally conforms to `spec`, else a description of the first offence.

    strict=True additionally rejects TypedDict values with undeclared keys (used to decide which
    union member a generated value belongs to, not to judge results)."""
    if _depth > 300:
        return None
    C = lambda s, x, p: conforms(s, x, mat, p, _depth + 1, strict)  # noqa: E731
    k = spec["k"]
    if k == "scalar":
        cls = SCALAR_CLASS[spec["t"]]
        if strict and spec["t"] not in ("Path", "Pattern"):
            return None if type(r) is cls else f"{path}: {r!r} is {type(r).__name__}, not exactly {spec['t']}"
        if spec["t"] == "bool":
            return None if type(r) is bool else f"{path}: {r!r} is {type(r).__name__}, not bool"
        if spec["t"] == "float":
            return None if isinstance(r, float) else f"{path}: {r!r} is {type(r).__name__}, not float"
        if spec["t"] == "int":
            return None if isinstance(r, int) else f"{path}: {r!r} is {type(r).__name__}, not int"
        return None if isinstance(r, cls) else f"{path}: {r!r} is {type(r).__name__}, not {spec['t']}"
    if k == "none":
        return None if r is None else f"{path}: {r!r} is not None"
    if k == "enum":
        E = mat.cls(spec)
        return None if isinstance(r, E) else f"{path}: {r!r} is not a member of {spec['name']}"
    if k == "literal":
        if any(type(r) is type(v) and r == v for v in spec["values"]):
            return None
        return f"{path}: {r!r} ({type(r).__name__}) is not one of {spec['values']!r}"
    if k in ("newtype", "alias", "stralias", "final", "classvar", "latealias"):
        return C(spec["a"][0], r, path)
    if k == "ref":
        return C(mat.resolve(spec), r, path)
    if k in ("list", "set", "frozenset", "deque", "vtuple"):
        want = ORIGIN[k]
        if type(r) is not want:
            return f"{path}: {_short(r)} is {type(r).__name__}, not {want.__name__}"
        for i, x in enumerate(r):
            e = C(spec["a"][0], x, f"{path}[{i}]")
            if e:
                return e
        return None
    if k == "tuple":
        if type(r) is not tuple:
            return f"{path}: {_short(r)} is {type(r).__name__}, not tuple"
        if len(r) != len(spec["a"]):
            return f"{path}: tuple of {len(r)} elements, declared arity {len(spec['a'])}"
        for i, (s, x) in enumerate(zip(spec["a"], r)):
            e = C(s, x, f"{path}[{i}]")
            if e:
                return e
        return None
    if k == "dict":
        if type(r) is not dict:
            return f"{path}: {_short(r)} is {type(r).__name__}, not dict"
        for kk, vv in r.items():
            e = C(spec["a"][0], kk, f"{path}<key {kk!r}>") or C(spec["a"][1], vv, f"{path}[{kk!r}]")
            if e:
                return e
        return None
    if k == "optional":
        return None if r is None else C(spec["a"][0], r, path)
    if k == "union":
        errs = []
        for s in spec["a"]:
            e = C(s, r, path)
            if e is None:
                return None
            errs.append(e)
        return f"{path}: {_short(r)} conforms to no member ({errs[0]})"
    if k == "class":
        cls = mat.cls(spec)
        fl = spec["flavour"]
        if fl in ("typeddict", "typeddict_partial"):
            if type(r) is not dict:
                return f"{path}: {_short(r)} is {type(r).__name__}, not dict (TypedDict {spec['name']})"
            if strict and set(r) - {f["n"] for f in spec["fields"]}:
                return f"{path}: undeclared keys in TypedDict {spec['name']}"
            for f in spec["fields"]:
                required = (fl == "typeddict" and not f.get("notreq")) or (fl == "typeddict_partial" and bool(f.get("req")))
                if f["n"] not in r:
                    if required:
                        return f"{path}: required key {f['n']!r} missing from TypedDict {spec['name']}"
                    continue
                e = C(f["t"], r[f["n"]], f"{path}[{f['n']!r}]")
                if e:
                    return e
            return None
        if type(r) is not cls:
            return f"{path}: {_short(r)} is {type(r).__module__}.{type(r).__name__}, not {spec['name']}"
        for f in spec["fields"]:
            if not hasattr(r, f["n"]):
                return f"{path}: field {f['n']} unset"
            x = getattr(r, f["n"])
            e = C(f["t"], x, f"{path}.{f['n']}")
            if e:
                return e
        return None
    raise ValueError(k)


def _short(x, n=80):
    r = repr(x)
    return r if len(r) <= n else r[:n] + "..."


# ------------------------------------------------------------------------------------------------
# harness-side wire form (independent of typelib.marshal)
# ------------------------------------------------------------------------------------------------

def iso_duration(td: datetime.timedelta) -> str:
    """An ISO-8601 duration for td (used as *input*, never compared with the library's text)."""
    if td == datetime.timedelta(0):
        return "PT0S"
    sign = "-" if td < datetime.timedelta(0) else ""
    a = abs(td)
    h, rem = divmod(a.seconds, 3600)
    m, s = divmod(rem, 60)
    out = "P"
    if a.days:
        out += f"{a.days}D"
    tpart = ""
    if h:
        tpart += f"{h}H"
    if m:
        tpart += f"{m}M"
    if s or a.microseconds:
        tpart += (f"{s}.{a.microseconds:06d}S" if a.microseconds else f"{s}S")
    if tpart:
        out += "T" + tpart
    return sign + out


def plain_wire(spec, v, mat: Materialised, _depth=0):
    """The JSON-compatible wire form of a valid value, built by the harness from the documented
    marshalling rules (str() for Decimal/Fraction/UUID/paths, isoformat for temporals, .value for
    enums, .pattern for patterns, lists for iterables, dicts for mappings / structured types)."""
    W = lambda s, x: plain_wire(s, x, mat, _depth + 1)  # noqa: E731
    k = spec["k"]
    if k == "scalar":
        t = spec["t"]
        if t in ("int", "bool", "float", "str"):
            return v
        if t in ("Decimal", "Fraction", "UUID", "PurePosixPath", "PureWindowsPath", "Path"):
            return str(v)
        if t == "Pattern":
            return v.pattern
        if t in ("date", "datetime", "time"):
            return v.isoformat()
        if t == "timedelta":
            return iso_duration(v)
        raise ValueError(t)
    if k == "none":
        return None
    if k == "enum":
        return v.value
    if k == "literal":
        return v
    if k in ("newtype", "alias", "stralias", "final", "classvar", "latealias"):
        return W(spec["a"][0], v)
    if k == "ref":
        return W(mat.resolve(spec), v)
    if k in ("list", "set", "frozenset", "deque", "vtuple"):
        return [W(spec["a"][0], x) for x in v]
    if k == "tuple":
        return [W(s, x) for s, x in zip(spec["a"], v)]
    if k == "dict":
        return {W(spec["a"][0], kk): W(spec["a"][1], vv) for kk, vv in v.items()}
    if k == "optional":
        return None if v is None else W(spec["a"][0], v)
    if k == "union":
        for s in spec["a"]:
            if conforms(s, v, mat, strict=True) is None:
                return W(s, v)
        raise ValueError("value conforms to no union member")
    if k == "class":
        fl = spec["flavour"]
        out = {}
        for f in spec["fields"]:
            if fl in ("typeddict", "typeddict_partial"):
                if f["n"] not in v:
                    continue
                x = v[f["n"]]
            else:
                x = getattr(v, f["n"])
            out[f["n"]] = W(f["t"], x)
        return out
    raise ValueError(k)


# ------------------------------------------------------------------------------------------------
# spec strategies
# ------------------------------------------------------------------------------------------------

_SCALAR_DEFAULT = {
    "int": "7", "bool": "True", "float": "1.5", "str": "'dflt'", "Decimal": "decimal.Decimal('1.5')",
    "Fraction": "fractions.Fraction(1, 3)", "UUID": "uuid.UUID(int=5)", "PurePosixPath": "pathlib.PurePosixPath('d/p')",
    "PureWindowsPath": "pathlib.PureWindowsPath('d/p')", "Path": "pathlib.Path('d/p')", "Pattern": "re.compile('d+')",
    "date": "datetime.date(2020, 1, 2)", "datetime": "datetime.datetime(2020, 1, 2, 3, 4, 5, tzinfo=datetime.timezone.utc)",
    "time": "datetime.time(1, 2, 3, tzinfo=datetime.timezone.utc)", "timedelta": "datetime.timedelta(seconds=5)",
}


def default_src(spec, enum_expr=None):
    """Source of an immutable, well-typed default for a field of type `spec`, or None."""
    k = spec["k"]
    if k == "scalar":
        return _SCALAR_DEFAULT.get(spec["t"])
    if k in ("optional", "none"):
        return "None"
    if k == "literal":
        return repr(spec["values"][0])
    if k == "enum":
        return (enum_expr(spec) if enum_expr else spec["name"]) + "." + spec["members"][0][0]
    if k in ("newtype", "alias", "stralias"):
        return default_src(spec["a"][0], enum_expr)
    if k == "union" and any(m["k"] == "none" for m in spec["a"]):
        return "None"
    return None


class Names:
    """Fresh names per generated spec (class/alias/enum).

    adversarial=True draws class names from a tiny pool so that equal class names occur in different
    modules, and records finished classes / composite sub-specs so that later positions can reuse
    them (diamonds, one generic reachable on several paths)."""

    POOL = ["A", "B", "Item"]

    def __init__(self, adversarial=False):
        self.n = itertools.count()
        self.adversarial = adversarial
        self.used = set()
        self.closed = []      # (mod, name) of finished classes
        self.flavour = {}     # (mod, name) -> flavour of finished classes
        self.leaf_pool = None  # adversarial: the few scalar types this program keeps re-using
        self.generics = []    # finished composite sub-specs (reused by identity)

    def fresh(self, prefix):
        return f"{prefix}{next(self.n)}"

    def class_name(self, draw, mod):
        if self.adversarial:
            for cand in draw(st.permutations(self.POOL)):
                if (mod, cand) not in self.used:
                    self.used.add((mod, cand))
                    return cand
        return self.fresh("C")


ENUM_VALUE_POOLS = {
    "plain": [1, 2, "a", "1", "null", "b", 0, "x y", True, 2.5],
    "int": [0, 1, 2, 7, -1, 100],
    "str": ["a", "1", "null", "b", "true", "[1]", "x y", "2020-01-01", ""],
}
ENUM_LOOKALIKE_PAIRS = {
    "plain": [(1, "1"), (None, "null"), (None, "None"), ("a", '"a"'), (True, "true"), (2.5, "2.5"), (0, "0"), ("b", "'b'"), (2, " 2")],
    "str": [("a", '"a"'), ("1", '"1"'), ("b", "'b'"), ("null", '"null"'), ("", '""')],
}


@st.composite
def enum_specs(draw, names: Names, mod=0):
    fl = draw(st.sampled_from(["plain", "int", "str"]))
    pool = ENUM_VALUE_POOLS[fl]
    vals = draw(st.lists(st.sampled_from(pool), min_size=1, max_size=3, unique_by=lambda v: (v if not isinstance(v, bool) else int(v))))
    if fl != "int" and draw(st.integers(0, 2)) == 0:
        # a member whose value is the JSON / literal text of a sibling's value (the text member first or second)
        pair = list(draw(st.sampled_from(ENUM_LOOKALIKE_PAIRS[fl])))
        if draw(st.booleans()):
            pair.reverse()
        vals = pair + [v for v in vals if v not in pair][:1]
    if fl != "int" and len(vals) >= 2 and draw(st.integers(0, 5)) == 0:
        vals = ["M1", *[v for v in vals[1:] if v != "M1"]]  # the value of the first member spells the *name* of the second
    # Enum aliases (equal values) collapse members: keep values pairwise != (1 == True == 1.0)
    uniq = []
    for v in vals:
        if not any(v == u for u in uniq):
            uniq.append(v)
    return {"k": "enum", "name": names.fresh("E"), "mod": mod, "flavour": fl,
            "members": [[f"M{i}", v] for i, v in enumerate(uniq)]}


@st.composite
def literal_specs(draw):
    pool = [1, 2, 0, "a", "1", "null", "b", True, False, None, -1, "x", ""]
    vals = draw(st.lists(st.sampled_from(pool), min_size=1, max_size=4))
    if draw(st.integers(0, 2)) == 0:
        # a text next to the value it decodes to, in either order
        pair = list(draw(st.sampled_from([(1, "1"), (None, "null"), (None, "None"), (True, "true"), (True, "True"), (0, "0"), ("a", '"a"'), (False, "false"), (-1, "-1")])))
        if draw(st.booleans()):
            pair.reverse()
        vals = pair + vals[:2]
    uniq = []
    for v in vals:
        if not any(type(v) is type(u) and v == u for u in uniq):
            uniq.append(v)
    out = {"k": "literal", "values": uniq}
    if draw(st.integers(0, 2)) == 0:
        out["sp"] = "bare"
    return out


def scalar_specs(pool=None):
    return st.sampled_from(pool or SCALARS).map(S)


@st.composite
def specs(draw, names: Names | None = None, *, max_depth=3, hashable=False, key=False, unions=True,
          wide_unions=True, open_classes=(), mods=1, scalars=None, wrappers=True, classes=True, str_keys=False,
          recursion=True, adversarial=False, _root=True):
    """A type spec of U. `open_classes`: enclosing classes that may be referred to recursively
    (only through an Optional / list / dict / vtuple edge)."""
    names = names or Names(adversarial)
    kw = dict(names=names, unions=unions, wide_unions=wide_unions, mods=mods, scalars=scalars, wrappers=wrappers,
              classes=classes, str_keys=str_keys, recursion=recursion, _root=False)
    sub = lambda **o: specs(**{**kw, "max_depth": max_depth - 1, "open_classes": open_classes, **o})  # noqa: E731
    if key:
        base = draw(st.sampled_from(["scalar", "scalar", "scalar", "newtype", "literal", "enum"]))
        if str_keys:
            base = draw(st.sampled_from(["scalar", "scalar", "newtype", "literal"]))
        if base == "scalar":
            return S("str") if str_keys else S(draw(st.sampled_from(KEY_SCALARS)))
        if base == "newtype":
            return {"k": "newtype", "name": names.fresh("NT"), "mod": 0, "a": [S("str") if str_keys else S(draw(st.sampled_from(KEY_SCALARS)))]}
        if base == "literal":
            if str_keys:
                return {"k": "literal", "values": draw(st.lists(st.sampled_from(["a", "b", "1", "null", "k"]), min_size=1, max_size=3, unique=True))}
            return draw(literal_specs())
        return draw(enum_specs(names, mod=draw(st.integers(0, mods - 1))))

    leafs = ["scalar"] * 6 + ["enum", "literal"]
    if max_depth <= 1:
        kinds = leafs
    else:
        kinds = leafs + ["list", "vtuple", "tuple", "dict", "optional"] * 2
        if not hashable:
            kinds += ["set", "frozenset", "deque"]
        else:
            kinds += ["frozenset"]
        if unions and wide_unions:
            kinds += ["union"]
        if classes:
            kinds += ["class"] * (8 if names.adversarial else 4)
        if wrappers:
            kinds += ["newtype", "alias", "stralias"]
        if hashable:
            kinds = [k for k in kinds if k not in ("list", "dict", "set", "deque")]
        if not unions:
            kinds = [k for k in kinds if k not in ("optional", "union")]
    if open_classes and recursion and max_depth >= 1 and not hashable:
        kinds = kinds + ["recurse"] * 3
    if names.adversarial and recursion and not hashable and not key:
        if names.closed:
            kinds = kinds + ["diamond"] * 3
        if names.generics and max_depth >= 2:
            kinds = kinds + ["repeat"] * 3
    k = draw(st.sampled_from(kinds))
    if k == "diamond":
        m, n = draw(st.sampled_from(names.closed))
        return {"k": "ref", "name": n, "mod": m}
    if k == "repeat":
        return draw(st.sampled_from(names.generics))

    if k == "scalar":
        if names.adversarial and not scalars:
            # a program re-uses a few leaf types over and over (the same leaf in a nested class and in the class around it)
            if names.leaf_pool is None:
                names.leaf_pool = draw(st.lists(st.sampled_from(SCALARS), min_size=2, max_size=3, unique=True))
            if draw(st.integers(0, 2)):
                return S(draw(st.sampled_from(names.leaf_pool)))
        return S(draw(st.sampled_from(scalars or SCALARS)))
    if k == "enum":
        return draw(enum_specs(names, mod=draw(st.integers(0, mods - 1))))
    if k == "literal":
        return draw(literal_specs())
    if k == "recurse":
        target = draw(st.sampled_from(list(open_classes)))
        ref = {"k": "ref", "name": target[1], "mod": target[0]}
        edge = draw(st.sampled_from(["optional", "list", "dict", "vtuple", "optional"]))
        if edge == "optional":
            return {"k": "optional", "a": [ref], "sp": draw(st.sampled_from(["Optional", "pipe", "Union"]))}
        if edge == "list":
            return {"k": "list", "a": [ref], "sp": draw(st.sampled_from(["list", "typing.List"]))}
        if edge == "dict":
            return {"k": "dict", "a": [S("str"), ref], "sp": "dict"}
        return {"k": "vtuple", "a": [ref], "sp": "tuple"}
    if k in ("list", "deque", "vtuple"):
        g = {"k": k, "a": [draw(sub(hashable=hashable))], "sp": draw(st.sampled_from(SPELLINGS[k]))}
        if names.adversarial and not has_kind(g, "ref"):
            names.generics.append(g)
        return g
    if k in ("set", "frozenset"):
        return {"k": k, "a": [draw(sub(hashable=True))], "sp": draw(st.sampled_from(SPELLINGS[k]))}
    if k == "tuple":
        n = draw(st.integers(1, 4))
        if draw(st.integers(0, 3)) == 0:
            # few member types, repeated: (A, A, B), (A, B, A), (A, A, B, B, A), (A, A, A) - positions which share a
            # routine next to positions which don't
            pool = [draw(sub(hashable=hashable)) for _ in range(draw(st.integers(1, 2)))]
            idx = [i % len(pool) for i in draw(st.lists(st.integers(0, 1), min_size=3, max_size=5))]
            # the member drawn first comes first: a later member may refer to classes the earlier one declares (a reference must
            # not precede the declaration it points to - for a nested class its text would name nothing)
            if idx[0] != 0:
                idx = [1 - i for i in idx]
            if len(pool) == 2 and 1 not in idx:
                idx[-1] = 1      # every drawn member is used: the classes it declared may already be referred to from elsewhere
            a = [copy.deepcopy(pool[i]) for i in idx]
        else:
            a = [draw(sub(hashable=hashable)) for _ in range(n)]
        g = {"k": "tuple", "a": a, "sp": draw(st.sampled_from(SPELLINGS["tuple"]))}
        if names.adversarial and not has_kind(g, "ref") and not hashable:
            names.generics.append(g)
        return g
    if k == "dict":
        g = {"k": "dict", "a": [draw(sub(key=True)), draw(sub())], "sp": draw(st.sampled_from(SPELLINGS["dict"]))}
        if names.adversarial and not has_kind(g, "ref"):
            names.generics.append(g)
        return g
    if k == "optional":
        inner = draw(sub(hashable=hashable, unions=False))
        return {"k": "optional", "a": [inner], "sp": draw(st.sampled_from(["Optional", "pipe", "Union", "pipe_first"]))}
    if k == "union":
        n = draw(st.integers(2, 4))
        if draw(st.integers(0, 3)) == 0:
            # temporal members side by side: their text forms are disjoint, their parsers are shared
            ms = [S(t) for t in draw(st.permutations(["date", "datetime", "time", "timedelta"]))[:max(2, n - 1)]]
        else:
            ms = [draw(sub(hashable=hashable, unions=False)) for _ in range(n)]
        if draw(st.booleans()):
            ms.insert(draw(st.integers(0, len(ms))), dict(NONE))
        return {"k": "union", "a": ms, "sp": draw(st.sampled_from(["Union", "pipe"]))}
    if k in ("newtype", "alias", "stralias"):
        if names.adversarial and recursion and names.closed and not hashable and not key and draw(st.integers(0, 3)) == 0:
            # a named wrapper over a class that is also reachable bare on another path (possibly from another module)
            m_, n_ = draw(st.sampled_from(names.closed))
            inner = {"k": "ref", "name": n_, "mod": m_}
            if k == "newtype" and names.flavour.get((m_, n_), "").startswith("typeddict"):
                k = "alias"
        elif max_depth >= 2 and draw(st.integers(0, 3)) == 0:
            # a wrapper directly over another wrapper (alias of an alias, alias of a NewType, NewType of a NewType ...)
            ik = draw(st.sampled_from(["newtype", "alias", "stralias"]))
            body = draw(sub(hashable=hashable, recursion=False, wrappers=False))
            if ik == "newtype" and (strip(body)["k"] in ("optional", "union", "literal") or (strip(body)["k"] == "class" and strip(body)["flavour"].startswith("typeddict"))):
                ik = "alias"
            inner = {"k": ik, "name": names.fresh({"newtype": "NT", "alias": "AL", "stralias": "SA"}[ik]), "mod": draw(st.integers(0, mods - 1)), "a": [body]}
        else:
            inner = draw(sub(hashable=hashable, recursion=False))
        if k == "newtype" and strip(inner)["k"] in ("optional", "union", "literal", "typeddict"):
            k = "alias"
        if k == "newtype" and strip(inner)["k"] == "class" and strip(inner)["flavour"].startswith("typeddict"):
            k = "alias"
        w = {"k": k, "name": names.fresh({"newtype": "NT", "alias": "AL", "stralias": "SA"}[k]),
             "mod": draw(st.integers(0, mods - 1)), "a": [inner]}
        if names.adversarial:
            names.generics.append(w)  # a wrapper (possibly declared in another module than its body) reused on several paths
        return w
    if k == "class":
        return draw(class_specs(names, max_depth=max_depth, hashable=hashable, open_classes=open_classes, kw=kw))
    raise ValueError(k)


@st.composite
def class_specs(draw, names, *, max_depth, hashable, open_classes, kw):
    fl = draw(st.sampled_from(HASHABLE_FLAVOURS if hashable else CLASS_FLAVOURS))
    mod = draw(st.integers(0, kw["mods"] - 1))
    name = names.class_name(draw, mod)
    # a class with empty __slots__ has neither hints, slots nor __dict__: the library (by design)
    # tells structured objects from scalars by vars() failing, so such a class is outside U.
    nf = draw(st.integers(1 if fl in ("slots", "dc_slots") else 0, 4))
    fnames = draw(st.lists(st.sampled_from(["a", "b", "c", "value", "item", "x", "first", "items", "keys", "id", "name", "get"]), min_size=nf, max_size=nf, unique=True))
    if fl.startswith("typeddict") and fnames and draw(st.integers(0, 3)) == 0:
        # the keys of a TypedDict are data whatever they look like (for classes a leading underscore means "not a field")
        fnames = ["_" + fnames[0], *fnames[1:]]
    fields = []
    future = draw(st.booleans())
    opened = (*open_classes, (mod, name))
    for fn in fnames:
        t = draw(specs(**{**kw, "max_depth": max_depth - 1, "hashable": hashable, "open_classes": opened if not hashable else ()}))
        f = {"n": fn, "t": t}
        # NotRequired[...] is only visible to typing when annotations are not stringified
        # (PEP 563 limitation documented for __required_keys__), so never under `future`.
        if fl in ("typeddict",) and not future and not has_kind(t, "ref") and draw(st.integers(0, 3)) == 0:
            f["notreq"] = True
        # ... and so is Required[...] in a total=False TypedDict
        if fl == "typeddict_partial" and not future and not has_kind(t, "ref") and draw(st.integers(0, 2)) == 0:
            f["req"] = True
        if fl in ("dataclass", "plain") and draw(st.integers(0, 6)) == 0 and not has_kind(t, "ref"):
            f["final"] = True
        if has_kind(t, "ref") and draw(st.booleans()):
            f["quote_whole"] = True
        fields.append(f)
    # well-typed defaults on a suffix of fields whose types have an immutable canonical default
    if fl not in ("typeddict", "typeddict_partial") and fields:
        suffix = 0
        for f in reversed(fields):
            if default_src(f["t"]) is None:
                break
            suffix += 1
        k = draw(st.integers(0, suffix)) if draw(st.integers(0, 2)) else 0
        for f in fields[len(fields) - k:]:
            f["default"] = True
    spec = {"k": "class", "name": name, "mod": mod, "flavour": fl, "future": future, "fields": fields}
    if fl == "dataclass" and draw(st.integers(0, 5)) == 0:
        spec["classvars"] = ["cv"]
    if fl.startswith("typeddict") and draw(st.integers(0, 3)) == 0:
        spec["te"] = True
    if not fl.startswith("typeddict") and draw(st.integers(0, 4)) == 0:
        spec["methods"] = draw(st.sampled_from([True, True, "falsy"]))
    if draw(st.integers(0, 5)) == 0:
        spec["nest"] = True     # declared in the body of another class: referred to as `<name>_Ns.<name>`, qualified name with a dot
    if fl != "namedtuple" and fields and draw(st.integers(0, 3)) == 0:
        # a class hierarchy: the first n fields are declared by a base class of the same flavour (a slotted class then only
        # names its own fields in __slots__, a TypedDict may sit on a base of the other totality)
        n = draw(st.integers(1, len(fields)))
        spec["inherit"] = n
        # (not for TypedDicts: Python copies a TypedDict base's annotations into the subclass and resolves their text in the
        # subclass's module - a cross-module TypedDict base with module-local names is unresolvable for Python itself)
        if kw["mods"] > 1 and not fl.startswith("typeddict") and draw(st.booleans()):
            spec["base_mod"] = draw(st.integers(0, kw["mods"] - 1))
        if fl.startswith("typeddict") and draw(st.booleans()):
            other = "typeddict_partial" if fl == "typeddict" else "typeddict"
            spec["base_flavour"] = other
            for f in fields[:n]:
                f.pop("notreq", None)
                f.pop("req", None)
                f["notreq" if other == "typeddict_partial" else "req"] = True
    if not has_kind(spec, "ref") or True:
        names.closed.append((mod, name))
        names.flavour[(mod, name)] = fl
    return spec


@st.composite
def repeated_generic_specs(draw, mods=2):
    """One parameterised generic G (its leaves need conversion on the wire) used twice in one annotation: nested under a
    container first and bare afterwards, or the other way round - the shapes in which the type graph meets G again."""
    names = Names(False)
    leaf = st.sampled_from(["Decimal", "date", "datetime", "UUID", "int", "float", "timedelta", "Fraction", "str"]).map(S)
    if draw(st.integers(0, 4)) == 0:
        # a nested class made of the very leaf types its enclosing class (or a sibling) also uses, declared before / after them
        la, lb = draw(leaf), draw(leaf)
        flv = st.sampled_from(["dataclass", "namedtuple", "typeddict", "plain"])
        fi = draw(flv)
        inner = {"k": "class", "name": names.fresh("In"), "mod": draw(st.integers(0, mods - 1)), "flavour": fi, "future": fi == "plain",
                 "fields": [{"n": "start", "t": la}, {"n": "days", "t": lb}]}
        own = [{"n": "made", "t": la}, {"n": "seats", "t": lb}]
        fo = draw(flv)
        fields = [{"n": "span", "t": inner}, *own] if draw(st.booleans()) else [*own, {"n": "span", "t": inner}]
        outer_c = {"k": "class", "name": names.fresh("Out"), "mod": draw(st.integers(0, mods - 1)), "flavour": fo, "future": fo == "plain", "fields": fields}
        shape = draw(st.sampled_from(["class", "list", "pair"]))
        if shape == "class":
            return outer_c
        if shape == "list":
            return {"k": "list", "sp": "list", "a": [outer_c]}
        return {"k": "tuple", "sp": "tuple", "a": [inner, la] if draw(st.booleans()) else [la, inner]}
    if draw(st.integers(0, 5)) == 0:
        # a field inherited from a base class of another module, annotated (as text) with a class name that the
        # subclass's module binds to a different class
        la, lb = draw(leaf), draw(leaf)
        fl = draw(st.sampled_from(["dataclass", "plain", "dc_slots", "slots", "dc_kwonly"]))
        ma, mb = draw(st.sampled_from([(0, 1), (1, 0)]))
        there = {"k": "class", "name": "Leaf", "mod": ma, "flavour": draw(st.sampled_from(["dataclass", "namedtuple", "plain"])), "future": True,
                 "fields": [{"n": "v", "t": la}]}
        here = {"k": "class", "name": "Leaf", "mod": mb, "flavour": draw(st.sampled_from(["dataclass", "namedtuple", "plain"])), "future": True,
                "fields": [{"n": "v", "t": lb}, {"n": "w", "t": la}]}
        child = {"k": "class", "name": names.fresh("Sub"), "mod": mb, "flavour": fl, "future": True, "inherit": 1, "base_mod": ma,
                 "fields": [{"n": "leaf", "t": there}, {"n": "extra", "t": here}]}
        shape = draw(st.sampled_from(["class", "list", "dict"]))
        return child if shape == "class" else ({"k": "list", "sp": "list", "a": [child]} if shape == "list" else
                                               {"k": "dict", "sp": "dict", "a": [S("str"), child]})
    if draw(st.integers(0, 5)) == 0:
        # a NewType / alias of a structured class (which has a structured member of its own) used as a member at two depths:
        # directly in the root class (bare or wrapped) and in a class nested one level down
        la, lb = draw(leaf), draw(leaf)
        flv = st.sampled_from(["dataclass", "namedtuple", "plain", "dc_frozen"])
        fut = draw(st.booleans())
        inner = {"k": "class", "name": names.fresh("Leaf"), "mod": draw(st.integers(0, mods - 1)), "flavour": draw(flv), "future": fut,
                 "fields": [{"n": "v", "t": la}]}
        item = {"k": "class", "name": names.fresh("Item"), "mod": draw(st.integers(0, mods - 1)), "flavour": draw(flv), "future": fut,
                "fields": [{"n": "x", "t": lb}, {"n": "leaf", "t": inner}]}
        wk = draw(st.sampled_from(["newtype", "alias"]))
        w = {"k": wk, "name": names.fresh("NT" if wk == "newtype" else "AL"), "mod": draw(st.integers(0, mods - 1)), "a": [item]}
        again = {"k": wk, "name": w["name"], "mod": w["mod"], "a": [{"k": "ref", "name": item["name"], "mod": item["mod"]}]}
        holder = {"k": "class", "name": names.fresh("Wrap"), "mod": draw(st.integers(0, mods - 1)), "flavour": draw(flv), "future": fut,
                  "fields": [{"n": "item", "t": again}]}
        first = w if draw(st.booleans()) else item
        if first is item:
            holder["fields"][0]["t"] = {"k": wk, "name": w["name"], "mod": w["mod"], "a": [{"k": "ref", "name": item["name"], "mod": item["mod"]}]}
        fields = [{"n": "first", "t": first}, {"n": "w", "t": holder}]
        root = {"k": "class", "name": names.fresh("Root"), "mod": draw(st.integers(0, mods - 1)), "flavour": draw(flv), "future": fut, "fields": fields}
        return root if draw(st.booleans()) else {"k": "list", "sp": "list", "a": [root]}
    kind = draw(st.sampled_from(["tuple", "list", "dict", "vtuple", "optional-list", "set"]))
    if kind == "tuple":
        g = {"k": "tuple", "sp": "tuple", "a": [draw(leaf) for _ in range(draw(st.integers(1, 3)))]}
    elif kind == "list":
        g = {"k": "list", "sp": "list", "a": [draw(leaf)]}
    elif kind == "dict":
        g = {"k": "dict", "sp": "dict", "a": [S("str"), draw(leaf)]}
    elif kind == "vtuple":
        g = {"k": "vtuple", "sp": "tuple", "a": [draw(leaf)]}
    elif kind == "set":
        g = {"k": "frozenset", "sp": "frozenset", "a": [draw(leaf)]}
    else:
        g = {"k": "optional", "sp": "Optional", "a": [{"k": "list", "sp": "list", "a": [draw(leaf)]}]}
    # ... optionally behind a named wrapper (NewType / value alias / string alias), which is then what is met twice
    w = draw(st.sampled_from([None, None, "newtype", "alias", "stralias"]))
    if w:
        if w == "newtype" and g["k"] == "optional":
            w = "alias"
        g = {"k": w, "name": names.fresh({"newtype": "NT", "alias": "AL", "stralias": "SA"}[w]), "mod": draw(st.integers(0, mods - 1)), "a": [g]}
    outer = draw(st.sampled_from(["list", "dict", "vtuple", "list-of-list", "same"]))
    if outer == "same":
        outer = "list" if not w else "same"
    nested = {"same": g, "list": {"k": "list", "sp": "list", "a": [g]}, "dict": {"k": "dict", "sp": "dict", "a": [S("str"), g]},
              "vtuple": {"k": "vtuple", "sp": "tuple", "a": [g]},
              "list-of-list": {"k": "list", "sp": "list", "a": [{"k": "list", "sp": "list", "a": [g]}]}}[outer]
    pair = [nested, g] if draw(st.booleans()) else [g, nested]
    shape = draw(st.sampled_from(["tuple", "class", "class-in-list", "dict-of-tuple"]))
    if shape == "tuple":
        return {"k": "tuple", "sp": "tuple", "a": pair}
    if shape == "dict-of-tuple":
        return {"k": "dict", "sp": "dict", "a": [S("str"), {"k": "tuple", "sp": "tuple", "a": pair}]}
    fl = draw(st.sampled_from(["dataclass", "namedtuple", "typeddict", "plain"]))
    c = {"k": "class", "name": names.fresh("R"), "mod": draw(st.integers(0, mods - 1)), "flavour": fl, "future": fl == "plain",
         "fields": [{"n": "first", "t": pair[0]}, {"n": "second", "t": pair[1]}]}
    return c if shape == "class" else {"k": "list", "sp": "list", "a": [c]}


@st.composite
def typeddict_hierarchy_specs(draw):
    """A TypedDict that extends a TypedDict of the *other* totality (or of the same one): which keys are required is decided per
    declaring class - `class Extended(Base, total=False)` keeps the required keys of a total Base. At the root or one container
    level down."""
    names = Names(False)
    fl = draw(st.sampled_from(["typeddict_partial", "typeddict_partial", "typeddict"]))
    leafs = [S("int"), S("str"), S("Decimal"), S("date"), {"k": "list", "sp": "list", "a": [S("int")]}, S("UUID"), S("float")]
    nf = draw(st.integers(2, 5))
    fields = [{"n": n, "t": draw(st.sampled_from(leafs))} for n in draw(st.permutations(["id", "name", "note", "when", "tags", "size"]))[:nf]]
    spec = {"k": "class", "name": names.fresh("TD"), "mod": 0, "flavour": fl, "future": False, "fields": fields,
            "inherit": draw(st.integers(1, nf - 1))}
    if draw(st.integers(0, 3)):
        other = "typeddict" if fl == "typeddict_partial" else "typeddict_partial"
        spec["base_flavour"] = other
        for f in fields[:spec["inherit"]]:
            # (the markers say what a key is for users of the subclass: the base's totality decides for the keys it declares)
            f["notreq" if other == "typeddict_partial" else "req"] = True
    if draw(st.integers(0, 3)) == 0:
        spec["te"] = True
    for f in fields[spec["inherit"]:]:
        # markers on the subclass's own keys, against its own totality
        if fl == "typeddict" and draw(st.integers(0, 3)) == 0:
            f["notreq"] = True
        if fl == "typeddict_partial" and draw(st.integers(0, 3)) == 0:
            f["req"] = True
    shape = draw(st.sampled_from(["root", "root", "list", "dict"]))
    if shape == "list":
        return {"k": "list", "sp": "list", "a": [spec]}
    if shape == "dict":
        return {"k": "dict", "sp": "dict", "a": [S("str"), spec]}
    return spec


@st.composite
def scalar_union_specs(draw, mods=1):
    """Unions of 2-4 leaf members (scalars, enums, literals; `str` at any position, None anywhere), at the root or one
    container level down: the annotations in which one input class is taken by different members depending on the value."""
    names = Names(False)
    n = draw(st.integers(2, 4))
    pool = ["int", "str", "float", "Decimal", "date", "datetime", "UUID", "bool", "timedelta", "time", "Fraction", "PurePosixPath"]
    ms = []
    for t in draw(st.lists(st.sampled_from(pool), min_size=n, max_size=n, unique=True)):
        ms.append(S(t))
    if draw(st.integers(0, 3)) == 0:
        # a number class declared before `str`: every text is a candidate of the number member first
        num = draw(st.sampled_from(["int", "float", "Decimal", "Fraction"]))
        ms = [m for m in ms if m["t"] not in (num, "str")][:n - 2]
        ms.insert(draw(st.integers(0, len(ms))), S(num))
        ms.append(S("str"))
    elif draw(st.integers(0, 2)) == 0:
        ms[draw(st.integers(0, len(ms) - 1))] = draw(st.one_of(enum_specs(names, mod=0), literal_specs()))
    if draw(st.integers(0, 2)) == 0:
        ms.insert(draw(st.integers(0, len(ms))), dict(NONE))
    u = {"k": "union", "a": ms, "sp": draw(st.sampled_from(["Union", "pipe"]))}
    shape = draw(st.sampled_from(["root", "root", "list", "dict", "tuple", "field"]))
    if shape == "list":
        return {"k": "list", "sp": "list", "a": [u]}
    if shape == "dict":
        return {"k": "dict", "sp": "dict", "a": [S("str"), u]}
    if shape == "tuple":
        return {"k": "tuple", "sp": "tuple", "a": [S("int"), u]}
    if shape == "field":
        return {"k": "class", "name": names.fresh("C"), "mod": 0, "flavour": draw(st.sampled_from(["dataclass", "namedtuple", "typeddict"])),
                "future": False, "fields": [{"n": "a", "t": u}, {"n": "b", "t": S("int")}]}
    return u


def root_specs(**kw):
    """Root annotations: a spec of U, occasionally wrapped in Final / ClassVar at the root."""
    base = specs(**kw)

    def wrap(s, w):
        if w == 0:
            return {"k": "final", "a": [s]}
        if w == 1:
            return {"k": "classvar", "a": [s]}
        return s

    return st.builds(wrap, base, st.integers(0, 14))


# ------------------------------------------------------------------------------------------------
# deterministic deep values for recursive programs (C07)
# ------------------------------------------------------------------------------------------------

class _Stop(Exception):
    pass


def deep_value(spec, mat: Materialised, d: int, fan: int = 2, _counter=None, _level=0, falsy=False):
    """A valid value of `spec` whose recursion through `ref` edges is followed exactly `d` times along
    every path (containers get `fan` elements on the first two levels, one below)."""
    c = _counter if _counter is not None else itertools.count(1)
    D = lambda s, dd=d, lv=_level: deep_value(s, mat, dd, fan, c, lv, falsy)  # noqa: E731
    k = spec["k"]
    if k == "scalar":
        t = spec["t"]
        n = next(c)
        if falsy and t in ("int", "str", "float", "bool"):
            # leaves that count as false: 0, "", 0.0, False - valid values which a truth test takes for "nothing there"
            return {"int": 0, "str": "", "float": 0.0, "bool": False}[t]
        return {"int": n, "str": f"s{n}", "float": n + 0.5, "bool": bool(n % 2)}.get(t) if t in ("int", "str", "float", "bool") \
            else eval(_SCALAR_DEFAULT[t], {"decimal": decimal, "fractions": fractions, "uuid": uuid, "pathlib": pathlib, "re": re, "datetime": datetime})  # noqa: S307
    if k == "none":
        return None
    if k == "enum":
        return list(mat.cls(spec))[0]
    if k == "literal":
        return spec["values"][0]
    if k in ("newtype", "alias", "stralias", "final", "classvar", "latealias"):
        return D(spec["a"][0])
    if k == "ref":
        if d <= 0:
            raise _Stop()
        return deep_value(mat.resolve(spec), mat, d - 1, fan, c, _level + 1, falsy)
    width = fan if _level < 2 else 1
    # only the first element / first recursive field continues the full-depth chain; siblings get
    # depth <= 1 so that the value grows linearly with d (a full tree would be exponential)
    side = min(d, 1)
    if k in ("list", "deque", "vtuple", "set", "frozenset"):
        ctor = {"list": list, "deque": collections.deque, "vtuple": tuple, "set": set, "frozenset": frozenset}[k]
        try:
            return ctor([D(spec["a"][0], d if i == 0 else side) for i in range(width)])
        except _Stop:
            return ctor()
    if k == "tuple":
        return tuple(D(s) for s in spec["a"])
    if k == "dict":
        try:
            return {("_k" if i == 0 else f"k{i}"): D(spec["a"][1], d if i == 0 else side) for i in range(width)} if strip(spec["a"][0]) == S("str") else {D(spec["a"][0]): D(spec["a"][1])}
        except _Stop:
            return {}
    if k == "optional":
        try:
            return D(spec["a"][0])
        except _Stop:
            return None
    if k == "union":
        for m in spec["a"]:
            if m["k"] == "none":
                continue
            try:
                return D(m)
            except _Stop:
                continue
        if any(m["k"] == "none" for m in spec["a"]):
            return None
        raise _Stop()
    if k == "class":
        C = mat.cls(spec)
        kw = {}
        spine_used = False
        for f in spec["fields"]:
            recursive = has_kind(f["t"], "ref", "class")
            kw[f["n"]] = D(f["t"], d if (not recursive or not spine_used) else side)
            spine_used = spine_used or recursive
        return C(**kw)
    raise ValueError(k)


def value_depth(v) -> int:
    """nesting depth of structured instances in v (iterative: deep values must not hit the C stack)."""
    best = 0
    stack = [(v, 0)]
    seen = 0
    while stack and seen < 200000:
        x, d = stack.pop()
        seen += 1
        inc = 0
        if dataclasses.is_dataclass(x) and not isinstance(x, type):
            kids, inc = [getattr(x, f.name) for f in dataclasses.fields(x)], 1
        elif isinstance(x, tuple) and hasattr(x, "_fields"):
            kids, inc = list(x), 1
        elif isinstance(x, dict):
            kids = list(x.values())
        elif isinstance(x, (list, tuple, set, frozenset, collections.deque)):
            kids = list(x)
        elif hasattr(x, "__dict__") and not isinstance(x, type):
            kids, inc = list(vars(x).values()), 1
        elif hasattr(type(x), "__slots__") and not isinstance(x, (int, str, float, bytes, type(None))):
            kids, inc = [getattr(x, sl) for c in type(x).__mro__ for sl in c.__dict__.get("__slots__", ()) if hasattr(x, sl)], 1
        else:
            continue
        best = max(best, d + inc)
        stack.extend((k, d + inc) for k in kids)
    return best


def instance_from_wire(spec, w, mat: Materialised, _depth=0):
    """An *instance* shaped source for `spec` whose members still hold wire values: structured classes are
    instantiated (TypedDicts stay dicts), every leaf keeps its wire form ("1.5" for a Decimal)."""
    I = lambda s, x: instance_from_wire(s, x, mat, _depth + 1)  # noqa: E731
    k = spec["k"]
    if k in ("newtype", "alias", "stralias", "final", "classvar", "latealias"):
        return I(spec["a"][0], w)
    if k == "ref":
        return I(mat.resolve(spec), w)
    if k == "optional":
        return None if w is None else I(spec["a"][0], w)
    if k in ("list", "set", "frozenset", "deque", "vtuple"):
        return [I(spec["a"][0], x) for x in w]
    if k == "tuple":
        return [I(s_, x) for s_, x in zip(spec["a"], w)]
    if k == "dict":
        return {kk: I(spec["a"][1], vv) for kk, vv in w.items()}
    if k == "class":
        kw = {f["n"]: I(f["t"], w[f["n"]]) for f in spec["fields"] if f["n"] in w}
        if spec["flavour"].startswith("typeddict"):
            return kw
        return mat.cls(spec)(**kw)
    return w
