"""Coverage-guided shards (thorough tier): the same check functions and the same Hypothesis strategies as the
random shards, but the choice sequence is supplied by libFuzzer (atheris) with coverage feedback from the
instrumented `typelib` package (`test.hypothesis.fuzz_one_input`).

A shard `{"cg": {"runs": N}, ...rest}` is executed by `run_cg` in a *fresh interpreter* (typelib has to be imported
under `atheris.instrument_imports`, which the forked pool workers cannot do any more):

    python -m harness.cg <ID> <shard.json> <out.json>

In that interpreter `core.CG` is set, and every `core.drive(strategy, fn, n=..)` call of the module's `run_shard`
forks a child in which libFuzzer drives `fn` for `runs` executions. `fn` reports to the collector exactly as in the
random shards (violations are collected and bucketed, never raised), the child writes the collector to disk on
every new violation and at the end, the parent reads it back. An exception escaping from `fn` is a harness fault:
libFuzzer stops, the child exits non-zero and the whole check exits 2.
"""

from __future__ import annotations

import json
import os
import subprocess
import sys
import time

HERE = os.path.dirname(os.path.dirname(os.path.abspath(__file__)))
DEPS = os.path.join(HERE, ".deps")


def ensure_atheris() -> bool:
    probe = [sys.executable, "-c", "import atheris"]
    env = dict(os.environ, PYTHONPATH=DEPS + os.pathsep + os.environ.get("PYTHONPATH", ""))
    if subprocess.run(probe, env=env, capture_output=True).returncode == 0:
        return True
    subprocess.run([sys.executable, "-m", "pip", "install", "-q", "--no-index", "--find-links", "/opt/veriftools/wheels",
                    "--no-deps", "--target", DEPS, "atheris"], env=dict(os.environ, PIP_NO_INDEX="1"), capture_output=True)
    return subprocess.run(probe, env=env, capture_output=True).returncode == 0


def run_cg(prop_id: str, shard: dict, col, deadline: float):
    """called in a pool worker: run the shard in a fresh instrumented interpreter and absorb its collector."""
    if not ensure_atheris():
        col.label("cg:atheris-unavailable")
        return
    if col.out_of_time():
        col.label("cg:not-started-wall-clock")
        return
    tag = f"{prop_id}_{shard.get('kind', 'x')}_{shard.get('seed', 0)}"
    wdir = os.path.join(HERE, "out", "cg", tag)
    os.makedirs(wdir, exist_ok=True)
    sp, op, lp = (os.path.join(wdir, n) for n in ("shard.json", "out.json", "log.txt"))
    with open(sp, "w") as fh:
        json.dump(shard, fh)
    if os.path.exists(op):
        os.unlink(op)
    env = dict(os.environ, PYTHONPATH=DEPS + os.pathsep + HERE + os.pathsep + os.environ.get("PYTHONPATH", ""),
               PYTHONHASHSEED="0", VERIF_CG_DEADLINE=str(deadline))
    with open(lp, "w") as log:
        budget = max(30.0, deadline - time.monotonic() + 60.0)
        try:
            r = subprocess.run([sys.executable, "-m", "harness.cg", prop_id, sp, op], cwd=HERE, env=env,
                               stdout=log, stderr=subprocess.STDOUT, timeout=budget)
            rc = r.returncode
        except subprocess.TimeoutExpired:
            rc = -9
    if os.path.exists(op):
        with open(op) as fh:
            col.replace(json.load(fh))  # the worker's collector is fresh: nothing else reported to it
    if rc == -9:
        col.truncated = True
        col.label("cg:stopped-at-wall-clock")
    elif rc != 0:
        with open(lp) as fh:
            tail = fh.read()[-3000:]
        raise RuntimeError(f"coverage-guided shard {tag} failed (rc={rc}); log tail:\n{tail}")


# ---- inside the fresh interpreter ------------------------------------------------------------------------

def drive_cg(strategy, fn, *, n, seed, col, cfg):
    """core.drive in coverage-guided mode: fork, fuzz `cfg['runs']` executions, read the collector back."""
    import atheris
    import hypothesis
    from hypothesis import HealthCheck, given, settings

    cfg["calls"] = cfg.get("calls", 0) + 1
    dump_path = os.path.join(cfg["wdir"], f"drive{cfg['calls']}.json")
    corpus = os.path.join(cfg["wdir"], f"corpus{cfg['calls']}")
    os.makedirs(corpus, exist_ok=True)
    for fnm in os.listdir(corpus):
        os.unlink(os.path.join(corpus, fnm))
    # starting corpus: a few byte strings long enough to be a complete choice sequence for Hypothesis (an empty
    # corpus makes libFuzzer spend its first thousands of executions on inputs Hypothesis rejects as too short);
    # derived from the seed only, so that a run is a function of the tree and VERIF_SEED
    import random
    rnd = random.Random(seed)
    for i in range(8):
        with open(os.path.join(corpus, f"seed{i}"), "wb") as fh:
            fh.write(rnd.randbytes(256 << (i % 4)))
    runs = int(cfg["runs"])
    pid = os.fork()
    if pid == 0:
        code = 1
        try:
            @settings(database=None, deadline=None, suppress_health_check=list(HealthCheck), report_multiple_bugs=False)
            @given(strategy)
            def _t(x):
                fn(x)

            fuzz = _t.hypothesis.fuzz_one_input
            state = {"n": 0, "seen": -1}

            def save():
                with open(dump_path + ".tmp", "w") as fh:
                    json.dump(col.dump(), fh, default=repr)
                os.replace(dump_path + ".tmp", dump_path)

            def target(data):
                state["n"] += 1
                if col.out_of_time():  # the check's wall-clock budget is used up: explored less, not a failure
                    save()
                    sys.stdout.flush()
                    sys.stderr.flush()
                    os._exit(0)
                fuzz(data)
                col.label("cg:executions")
                marks = sum(v["count"] for v in col.violations.values()) + sum(col.known_hits.values())
                if marks != state["seen"] or state["n"] % 2000 == 0 or state["n"] >= runs:
                    state["seen"] = marks
                    save()

            save()
            atheris.Setup([sys.argv[0], f"-runs={runs}", f"-seed={seed % (2 ** 31 - 1) or 1}", "-max_len=8192",
                           "-len_control=0", f"-verbosity={int(os.environ.get('VERIF_CG_VERBOSE', '0'))}", "-print_final_stats=1", f"-artifact_prefix={cfg['wdir']}/", corpus], target)
            atheris.Fuzz()
            code = 0
        except SystemExit as e:
            code = e.code if isinstance(e.code, int) else 1
        except BaseException:  # noqa: BLE001
            import traceback
            traceback.print_exc()
            code = 3
        finally:
            sys.stdout.flush()
            sys.stderr.flush()
            os._exit(code or 0)
    _, status = os.waitpid(pid, 0)
    rc = os.waitstatus_to_exitcode(status)
    if os.path.exists(dump_path):
        with open(dump_path) as fh:
            col.replace(json.load(fh))
    if rc != 0:
        raise RuntimeError(f"libFuzzer child exited with {rc} (an exception escaped from the check function - see the log)")


def main(argv):
    prop_id, shard_path, out_path = argv
    import atheris  # noqa: F401

    with open(shard_path) as fh:
        shard = json.load(fh)
    cfg = dict(shard.pop("cg"))
    cfg["wdir"] = os.path.dirname(os.path.abspath(out_path))
    sys.setrecursionlimit(int(os.environ.get("VERIF_RECURSION", "3000")))
    with atheris.instrument_imports(include=["typelib"], enable_loader_override=False):
        from harness import tl  # noqa: F401  (imports typelib from the tree under test)
    import importlib

    from harness import core, findings

    core.CG = cfg
    mod = importlib.import_module(f"harness.props.{prop_id.lower()}")
    col = core.Collector(prop_id, deadline=float(os.environ["VERIF_CG_DEADLINE"]), known=findings.matcher(prop_id))
    mod.run_shard(shard, col)
    col.label("cg:shards")
    with open(out_path, "w") as fh:
        json.dump(col.dump(), fh, default=repr)
    return 0


if __name__ == "__main__":
    sys.exit(main(sys.argv[1:]))
