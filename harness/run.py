"""Runner: ./check <ID> [--tier quick|thorough] [--replay FILE]

exit 0  property held on everything explored (KNOWN-FINDING lines may be printed)
exit 1  at least one line `VIOLATION property=<ID> replay=<path>` was printed
exit 2  harness fault (never prints VIOLATION)
"""

from __future__ import annotations

import argparse
import importlib
import json
import multiprocessing as mp
import os
import sys
import time
import traceback

HERE = os.path.dirname(os.path.dirname(os.path.abspath(__file__)))
if HERE not in sys.path:
    sys.path.insert(0, HERE)

WORKERS = int(os.environ.get("VERIF_WORKERS", "16"))
WALL = {"quick": 240.0, "thorough": 3600.0}


def _load(prop_id: str):
    return importlib.import_module(f"harness.props.{prop_id.lower()}")


def _worker(args):
    prop_id, shard, deadline_in = args
    try:
        import resource
        import threading  # noqa: F401

        sys.setrecursionlimit(int(os.environ.get("VERIF_RECURSION", "3000")))
        # Hypothesis's gc callback may run at the bottom of a deliberately deep stack: not worth a traceback
        sys.unraisablehook = lambda u: None if isinstance(u.exc_value, RecursionError) else sys.__unraisablehook__(u)
        # (its gc callback only feeds Hypothesis's per-example deadline accounting, which is switched off here)
        for _m in list(sys.modules.values()):
            if getattr(_m, "__name__", "").startswith("hypothesis") and hasattr(_m, "gc_cumulative_time"):
                _m.gc_cumulative_time = lambda: 0.0
        from harness import core, findings

        mod = _load(prop_id)
        # `deadline_in` is an absolute CLOCK_MONOTONIC instant (system-wide, shared by the forked workers):
        # the wall-clock budget is for the whole check, not per shard
        col = core.Collector(prop_id, deadline=deadline_in, known=findings.matcher(prop_id))
        if shard.get("kind") == "__replay__":
            for item in shard["cases"]:
                col.ev()
                mod.replay(item["clause"], item["case"], col)
        elif shard.get("cg"):
            from harness import cg
            cg.run_cg(prop_id, shard, col, deadline_in)
        else:
            mod.run_shard(shard, col)
        return col.dump()
    except BaseException:  # noqa: BLE001
        return {"error": traceback.format_exc(), "shard": repr(shard)[:300]}


def _replay_items(prop_id: str):
    from harness import findings

    items = []
    cdir = os.path.join(HERE, "corpus", prop_id)
    if os.path.isdir(cdir):
        for fn in sorted(os.listdir(cdir)):
            if fn.endswith(".json"):
                with open(os.path.join(cdir, fn)) as fh:
                    d = json.load(fh)
                items.append({"clause": d["clause"], "case": d["case"], "src": f"corpus/{prop_id}/{fn}"})
    for e in findings.load(prop_id):
        m = e.get("minimal")
        if m and e["property"] == prop_id:  # the minimal case is in its own property's format
            items.append({"clause": m["clause"], "case": m["case"], "src": f"known_findings:{e['id']}"})
    return items


def main(argv=None):
    ap = argparse.ArgumentParser()
    ap.add_argument("prop")
    ap.add_argument("--tier", default=os.environ.get("VERIF_TIER", "quick"), choices=["quick", "thorough"])
    ap.add_argument("--replay", default=None)
    a = ap.parse_args(argv)
    prop_id = a.prop.upper()
    seed = int(os.environ.get("VERIF_SEED", "1") or "1")

    if os.environ.get("PYTHONHASHSEED") != "0":
        env = dict(os.environ, PYTHONHASHSEED="0")
        os.execve(sys.executable, [sys.executable, "-m", "harness.run", *(argv or sys.argv[1:])], env)

    t0 = time.monotonic()
    try:
        from harness import core, findings, tl  # noqa: F401
        mod = _load(prop_id)
    except SystemExit:
        raise
    except BaseException:
        traceback.print_exc()
        print(f"HARNESS-ERROR cannot load {prop_id}", file=sys.stderr)
        return 2

    # ---- single replay -------------------------------------------------------------------
    if a.replay:
        with open(a.replay) as fh:
            d = json.load(fh)
        col = core.Collector(prop_id, known=findings.matcher(prop_id))
        try:
            mod.replay(d["clause"], d["case"], col)
        except BaseException:
            traceback.print_exc()
            return 2
        for fid in col.known_hits:
            print(f"KNOWN-FINDING: property={prop_id} {fid} reproduced by {a.replay}")
        if col.violations:
            for b, v in col.violations.items():
                print(f"  clause={v['clause']} detail={v['detail']}")
            print(f"VIOLATION property={prop_id} replay={a.replay}")
            return 1
        print(f"OK property={prop_id} replay={a.replay}: no violation")
        return 0

    # ---- plan ----------------------------------------------------------------------------
    wall = float(os.environ.get("VERIF_WALL_S", WALL[a.tier]))
    shards = list(mod.plan(a.tier, seed))
    if a.tier == "thorough" and callable(getattr(mod, "cg_plan", None)) and not os.environ.get("VERIF_NO_CG"):
        shards = list(mod.cg_plan(seed)) + shards  # coverage-guided shards (harness/cg.py) first: they are the longest
    rep = _replay_items(prop_id)
    if rep:
        shards.insert(0, {"kind": "__replay__", "cases": rep})
    jobs = [(prop_id, s, time.monotonic() + wall) for s in shards]
    ctx = mp.get_context("fork")
    dumps = []
    with ctx.Pool(min(WORKERS, max(1, len(jobs))), maxtasksperchild=1) as pool:
        for r in pool.imap_unordered(_worker, jobs, chunksize=1):
            if "error" in r:
                print(r["error"], file=sys.stderr)
                print(f"HARNESS-ERROR worker failed on shard {r['shard']}", file=sys.stderr)
                pool.terminate()
                return 2
            dumps.append(r)
    m = core.merge(dumps)
    wall_s = time.monotonic() - t0

    # ---- report --------------------------------------------------------------------------
    known = {e["id"]: e for e in findings.load(prop_id)}
    for fid, n in sorted(m["known_hits"].items()):
        print(f"KNOWN-FINDING: property={prop_id} {fid}: {known[fid]['what']} ({n} generated cases)")
    rc = 0
    outdir = os.path.join(HERE, "out", "replays", prop_id)
    if os.path.isdir(outdir):  # replays of earlier runs would only confuse
        for fn in os.listdir(outdir):
            os.unlink(os.path.join(outdir, fn))
    for b, v in sorted(m["violations"].items()):
        os.makedirs(outdir, exist_ok=True)
        path = os.path.join(outdir, core.digest(b + json.dumps(v["case"], sort_keys=True, default=repr)) + ".json")
        with open(path, "w") as fh:
            json.dump({"property": prop_id, "clause": v["clause"], "bucket": b, "detail": v["detail"],
                       "count": v["count"], "case": v["case"]}, fh, indent=1, default=repr)
        print(f"  bucket={b} count={v['count']} detail={v['detail'][:300]}")
        print(f"VIOLATION property={prop_id} replay={os.path.relpath(path, HERE)}")
        rc = 1

    exhaustive = bool(getattr(mod, "EXHAUSTIVE", False)) and m["exhaustive_done"] and not m["truncated"]
    if callable(getattr(mod, "exhaustive", None)):
        exhaustive = bool(mod.exhaustive(a.tier)) and not m["truncated"]
    ev = {
        "property_id": prop_id,
        "tier": a.tier,
        "seed": seed,
        "level": "exploration",
        "coverage": {
            "evaluations": m["evaluations"],
            "distinct_nontrivial": len(m["nontrivial"]),
            "rule": mod.RULE + ("; " + mod.RULE_EXTRA if getattr(mod, "RULE_EXTRA", None) else ""),
            "samples": m["samples"],
            "exhaustive": exhaustive,
            "labels": dict(sorted(m["labels"].items())),
            "excluded_by_finding": dict(m["known_hits"]),
            "shards": m["shards"],
            "workers": min(WORKERS, len(jobs)),
            "truncated_by_wall_clock": m["truncated"],
            "replayed_cases": len(rep),
            "typelib_caches_cleared_per_program": tl.n_caches(),
        },
        "assumptions": list(getattr(mod, "ASSUMPTIONS", [])),
        "wall_s": round(wall_s, 2),
        "violations": len(m["violations"]),
    }
    if getattr(mod, "EXHAUSTIVE_NOTE", None):
        ev["coverage"]["exhaustive_part"] = mod.EXHAUSTIVE_NOTE
    evdir = os.path.join(HERE, "out", "evidence_scratch") if os.environ.get("VERIF_NO_EVIDENCE") else os.path.join(HERE, "evidence")
    os.makedirs(evdir, exist_ok=True)
    with open(os.path.join(evdir, f"{prop_id}.json"), "w") as fh:
        json.dump(ev, fh, indent=1, default=repr)
        fh.write("\n")
    print(f"{prop_id} tier={a.tier} seed={seed} evaluations={m['evaluations']} "
          f"distinct_nontrivial={len(m['nontrivial'])} violations={len(m['violations'])} "
          f"known={sum(m['known_hits'].values())} wall={wall_s:.1f}s"
          + (" TRUNCATED" if m["truncated"] else ""))
    return rc


if __name__ == "__main__":
    sys.exit(main())
