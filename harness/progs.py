"""Driving checks over generated programs (type spec + synthesised modules) and their values."""

from __future__ import annotations

import traceback

from harness import core, tl
from harness import universe as U
from harness.core import st


class Prog:
    """One generated program during a check: spec, materialised modules, Hypothesis data."""

    def __init__(self, spec, mat, data, col):
        self.spec, self.mat, self.data, self.col = spec, mat, data, col
        self.T = mat.root
        self._key = None
        self.warmups = []

    def warm(self, what):
        """Routines of the *other* direction (or the codec) built before the calls under test: the order in which routines
        for one type are first built is part of a program's history. Recorded in `case()` and redone on replay."""
        f = {"marshaller": tl.marshaller, "unmarshaller": tl.unmarshaller, "codec": tl.codec}[what]
        tl.call(f, self.T)
        self.warmups.append(what)
        if self.col is not None:
            self.col.label("warm-up:" + what)

    @property
    def key(self):
        if self._key is None:
            self._key = core.digest(U.spec_key(self.spec))
        return self._key

    def case(self, **extra):
        """JSON-able replay description."""
        d = {"spec": self.spec, "root": self.mat.root_expr}
        if self.warmups:
            d["warm"] = list(self.warmups)
        for k, v in extra.items():
            d[k] = v
        return d

    def src(self, v):
        return U.to_src(v, self.mat)

    def draw(self, strategy):
        return self.data.draw(strategy)


def drive_programs(col, *, seed, n, spec_strategy, per_program, label_kinds=True):
    """per_program(Prog) is called with cold typelib caches for each generated program."""

    def one(pair):
        spec, data = pair
        try:
            mat = U.materialise(spec)
        except Exception as e:  # generator fault: never a VIOLATION
            col.label("harness:materialise-failed:" + type(e).__name__)
            if col.labels["harness:materialise-failed:" + type(e).__name__] > 25:
                raise
            return
        with mat:
            tl.clear_all()
            if label_kinds:
                for s in U.walk(spec):
                    col.label("kind:" + s["k"])
                col.label(f"depth:{min(U.depth(spec), 6)}")
            per_program(Prog(spec, mat, data, col))

    core.drive(st.tuples(spec_strategy, st.data()), one, n=n, seed=seed, col=col)


def replay_program(case, col, per_case):
    """Re-materialise case['spec'] and call per_case(Prog-like without data)."""
    spec = case["spec"]
    mat = U.materialise(spec)
    with mat:
        tl.clear_all()
        p = Prog(spec, mat, None, col)
        for w in case.get("warm", ()):
            p.warm(w)
        per_case(p)
