"""Known findings: loader and the predicates that recognise each finding *by construction*.

`known_findings.json` is committed and never written at run time. Entries:
  {"id", "property", "status": "known"|"fixed", "predicate", "what", "minimal": {clause, case}, "commit"?}
A `known` entry's predicate recognises the specific failing class as narrowly as the root
cause allows; a violation outside every predicate is reported. `fixed` entries suppress
nothing - their `minimal` case simply stays in the replay tier.
"""

from __future__ import annotations

import json
import os

HERE = os.path.dirname(os.path.dirname(os.path.abspath(__file__)))
PATH = os.path.join(HERE, "known_findings.json")

PREDICATES = {}


def predicate(name):
    def deco(f):
        PREDICATES[name] = f
        return f
    return deco


def load(prop: str | None = None) -> list[dict]:
    if not os.path.exists(PATH):
        return []
    with open(PATH) as fh:
        items = json.load(fh)["findings"]
    return [e for e in items if prop is None or prop == e["property"] or prop in e.get("also", ())]


def matcher(prop: str):
    """-> callable(clause, case, detail) -> finding id | None, for status == 'known' entries."""
    entries = [e for e in load(prop) if e["status"] == "known"]
    if not entries:
        return None
    preds = []
    for e in entries:
        p = PREDICATES.get(e["predicate"])
        if p is None:
            raise SystemExit(f"HARNESS-ERROR unknown predicate {e['predicate']!r} in known_findings.json")
        preds.append((e["id"], p))

    def match(clause, case, detail):
        for fid, p in preds:
            try:
                if p(clause, case, detail):
                    return fid
            except Exception:
                continue
        return None

    return match


# ---------------------------------------------------------------------------------------
# Predicates. Each one states the root cause it recognises.
# ---------------------------------------------------------------------------------------

from harness import findings_preds  # noqa: E402,F401  (registers predicates)
