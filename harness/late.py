"""Two-phase programs: a module that refers (by text) to a class which is declared only later.

Phase 1 - the module exists, the class does not: whatever is asked about the references fails, the caller handles the error.
Phase 2 - the class is declared (the rest of the module is executed): the references are resolvable now, and the answers must
be what they are in a twin module in which everything was declared before the first question was asked."""

from __future__ import annotations

import itertools
import sys
import types

_n = itertools.count()

EARLY = '''
import dataclasses, typing
ItemAlias = typing.TypeAliasType("ItemAlias", "Item")            # string-valued alias of a class declared later
ItemList = typing.TypeAliasType("ItemList", "list[Item]")
type LazyItems = list[Item]                                      # PEP 695: evaluated on first use
type LazyMap = dict[str, Item]
ItemRef = typing.ForwardRef("Item", module=__name__)
@dataclasses.dataclass
class Order:
    number: int
    first: "Item"
    items: "list[Item]"
class Outer:
    pass
'''
LATE = '''
@dataclasses.dataclass
class Item:
    sku: str
    qty: int = 1
@dataclasses.dataclass
class _Inner:
    n: int
_Inner.__qualname__ = "Outer.Inner"
_Inner.__name__ = "Inner"
Outer.Inner = _Inner
'''


class TwoPhase:
    def __init__(self, tag: str):
        self.name = f"late_{tag}_{next(_n)}"
        self.mod = types.ModuleType(self.name)
        self.mod.__file__ = f"/nonexistent/{self.name}.py"
        sys.modules[self.name] = self.mod
        exec(compile(EARLY, self.mod.__file__, "exec"), self.mod.__dict__)  # noqa: S102

    def declare(self):
        exec(compile(LATE, self.mod.__file__, "exec"), self.mod.__dict__)  # noqa: S102
        return self

    def close(self):
        sys.modules.pop(self.name, None)

    def norm(self, text: str) -> str:
        return text.replace(self.name, "late_mod")
