"""Fail - repair in place - retry: a history that every value-quantified property implicitly covers.

A call on an object that holds ONE invalid member fails (or not); the caller handles the error, puts the original member back
into that very object and issues the same call again. The object is then a valid input like any other: the call must give
what it gives for a value nobody ever failed on. Whatever the routines keep about an attempt that did not finish (markers of
objects in progress, half-filled memos, flags) is what this shows."""

from __future__ import annotations

from harness import tl
from harness.oracles import poison_in_place, settable_positions, snapshot


def retry_after_failure(obj, call, pick: int):
    """-> None (nothing to overwrite) | (first_failed: bool, want, got) with want/got = ("ok", snapshot) | ("exc", name).

    `call(obj)` -> tl.call-style (kind, result). The reference outcome is taken on `obj` before it is touched."""
    k0, r0 = call(obj)
    want = ("ok", snapshot(r0)) if k0 == "ok" else ("exc", tl.exc_name(r0))
    positions = settable_positions(obj)
    if not positions:
        return None
    undo = poison_in_place(positions[pick % len(positions)])
    if undo is None:
        return None
    kf, _ = call(obj)
    undo()
    k2, r2 = call(obj)
    got = ("ok", snapshot(r2)) if k2 == "ok" else ("exc", tl.exc_name(r2))
    return kf == "exc", want, got
