"""Class-graph topologies (for C07 and C09): digraphs over up to 4 synthesised classes.

A topology is a tuple of classes; class i is a tuple of edges (target, kind); every class also has the
scalar fields `v: int` and `d: Decimal` (a leaf whose wire form needs conversion). Edge kinds:
  "opt"   Optional[X]        "pipe"  X | None      "list"  list[X]
  "dict"  dict[str, X]       "vt"    tuple[X, ...] "direct" X   (only where it closes no cycle)
`to_spec(topology, root, embedding, ...)` turns a topology into a universe spec: the first occurrence
of a class (depth-first from the root) is defined inline, every other occurrence is a `ref`.
"""

from __future__ import annotations

import itertools

CYCLE_KINDS = ["opt", "pipe", "list", "dict", "vt"]
# edges through a *named* (non-string) alias / NewType of a container, declared after the classes
# ... or through a named wrapper directly over the class itself: Optional[NewType(X)], list[alias(X)], tuple[NewType(X), ...]
ALIAS_KINDS = ["alist", "adict", "ntlist", "aopt", "optnt", "listal", "vtnt"]
ALL_KINDS = CYCLE_KINDS + ["direct"]
EMBEDDINGS = ["self", "list", "dict", "opt", "vt"]
CLASS_NAMES = ["A", "B", "C", "D"]
FLAVOURS = ["dataclass", "dc_slots", "namedtuple", "typeddict", "plain", "dc_frozen"]


def wrap(kind, inner):
    S = lambda t: {"k": "scalar", "t": t}  # noqa: E731
    if kind == "opt":
        return {"k": "optional", "a": [inner], "sp": "Optional"}
    if kind == "pipe":
        return {"k": "optional", "a": [inner], "sp": "pipe"}
    if kind == "list":
        return {"k": "list", "a": [inner], "sp": "list"}
    if kind == "dict":
        return {"k": "dict", "a": [S("str"), inner], "sp": "dict"}
    if kind == "vt":
        return {"k": "vtuple", "a": [inner], "sp": "tuple"}
    if kind in ("direct", "self"):
        return inner
    raise ValueError(kind)


def to_spec(topology, root=0, embedding="self", flavours=None, future=False, mods=None, names=None, nest=None):
    """-> universe spec. flavours[i]: class flavour; mods[i]: module index; names[i]: class name."""
    n = len(topology)
    flavours = flavours or ["dataclass"] * n
    mods = mods or [0] * n
    names = names or CLASS_NAMES[:n]
    defined = set()
    alias_n = [0]

    root_alias = {"k": "latealias", "name": "AlRoot", "mod": mods[root], "a": [None], "wrapper": "alias"}

    def edge(kind, inner, owner_mod, target=None):
        if embedding == "edgealias" and kind == "alist" and target == root:
            # `type AlRoot = list[Root]` is the root annotation and Root (or a class below it) refers to it by name
            return {"k": "ref", "name": "AlRoot", "mod": mods[root]}
        if kind in ("optnt", "listal", "vtnt"):
            alias_n[0] += 1
            w = {"k": "latealias", "name": f"Ref{alias_n[0]}", "mod": owner_mod, "a": [inner], "wrapper": "newtype" if kind.endswith("nt") else "alias"}
            return wrap({"optnt": "opt", "listal": "list", "vtnt": "vt"}[kind], w)
        if kind in ALIAS_KINDS:
            alias_n[0] += 1
            base = {"alist": "list", "adict": "dict", "ntlist": "list", "aopt": "opt"}[kind]
            return {"k": "latealias", "name": f"Al{alias_n[0]}", "mod": owner_mod, "a": [wrap(base, inner)],
                    "wrapper": "newtype" if kind == "ntlist" else "alias"}
        return wrap(kind, inner)

    def cls(i):
        if i in defined:
            return {"k": "ref", "name": names[i], "mod": mods[i]}
        defined.add(i)
        fields = [{"n": "v", "t": {"k": "scalar", "t": "int"}}, {"n": "d", "t": {"k": "scalar", "t": "Decimal"}}]
        fl = flavours[i]
        for j, (target, kind) in enumerate(topology[i]):
            fields.append({"n": f"e{j}", "t": edge(kind, cls(target), mods[i], target)})
            if fl == "typeddict" and not future and (i + j) % 2 == 0:
                # the links of a TypedDict node are what one leaves out: NotRequired next to the required payload keys
                # (deep values carry them all the same: a not-required key that IS present)
                fields[-1]["notreq"] = True
        c_ = {"k": "class", "name": names[i], "mod": mods[i], "flavour": fl, "future": future, "fields": fields}
        if nest and nest[i]:
            c_["nest"] = True     # the class is declared in the body of another class (qualified name with a dot)
        return c_

    if embedding == "edgealias":
        defined.add(root)          # inside the class bodies the root class is referred to, not re-defined
        defined.discard(root)
        c = cls(root)
        root_alias["a"] = [wrap("list", c)]
        return root_alias
    c = cls(root)
    return wrap(embedding, c)


def reachable(topology, root):
    seen, stack = set(), [root]
    while stack:
        i = stack.pop()
        if i in seen:
            continue
        seen.add(i)
        stack.extend(t for t, _ in topology[i])
    return seen


def has_cycle(topology, root=0):
    color = {}

    def dfs(i):
        color[i] = 1
        for t, _ in topology[i]:
            if color.get(t) == 1:
                return True
            if t not in color and dfs(t):
                return True
        color[i] = 2
        return False

    return dfs(root)


def cycle_is_guarded(topology):
    """no cycle consists of `direct` edges only (that would be a class containing itself by value - not
    constructible); a `direct` edge may lie on a cycle that another edge closes through a container/optional
    (`A.holder: Holder`, `Holder.a: A | None`)."""
    n = len(topology)
    direct = tuple(tuple((t, k) for t, k in topology[i] if k == "direct") for i in range(n))
    for i in range(n):
        for t, _ in direct[i]:
            if i in reachable(direct, t):
                return False
    return True


def _edge_sets(n, kinds, max_out):
    edges = [(t, k) for t in range(n) for k in kinds]
    out = [()]
    for r in range(1, max_out + 1):
        out += list(itertools.combinations_with_replacement(edges, r))
    return out


def enumerate_topologies(n, kinds=CYCLE_KINDS, max_out=2, require_cycle=True):
    """all topologies on n classes with out-degree <= max_out (edges as multisets), every class
    reachable from class 0, optionally with a cycle reachable from class 0."""
    per_class = _edge_sets(n, kinds, max_out)
    for combo in itertools.product(per_class, repeat=n):
        if len(reachable(combo, 0)) != n:
            continue
        if not cycle_is_guarded(combo):
            continue
        if require_cycle and not has_cycle(combo, 0):
            continue
        yield combo


def count(n, **kw):
    return sum(1 for _ in enumerate_topologies(n, **kw))


def describe(topology, names=CLASS_NAMES):
    return "; ".join(f"{names[i]}: " + (", ".join(f"{k}->{names[t]}" for t, k in es) or "-") for i, es in enumerate(topology))
