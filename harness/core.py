"""Collector, Hypothesis driver and watchdog shared by all property modules."""

from __future__ import annotations

import collections
import contextlib
import hashlib
import json
import signal
import time

import hypothesis
from hypothesis import HealthCheck, Phase, given, settings
from hypothesis import strategies as st  # noqa: F401  (re-export)

MAX_SAMPLES = 8
CG = None  # set by harness.cg in a coverage-guided interpreter: {"runs": N, "wdir": ...}


def digest(obj) -> str:
    if not isinstance(obj, str):
        obj = json.dumps(obj, sort_keys=True, default=repr)
    return hashlib.blake2b(obj.encode("utf-8", "surrogatepass"), digest_size=8).hexdigest()


class Collector:
    """Per-shard record of what was explored. Picklable through `.dump()`."""

    def __init__(self, prop: str, deadline: float | None = None, known=None):
        self.prop = prop
        self.evaluations = 0
        self.nontrivial: set[str] = set()
        self.samples: list = []
        self.labels: collections.Counter = collections.Counter()
        # bucket -> dict(size, case, detail, count, clause)
        self.violations: dict[str, dict] = {}
        self.known_hits: collections.Counter = collections.Counter()
        self.known_examples: dict[str, dict] = {}
        self.deadline = deadline
        self.truncated = False
        self.exhaustive_done = False
        self._known = known  # callable(clause, case, detail) -> finding id | None

    # -- budget -----------------------------------------------------------------
    def out_of_time(self) -> bool:
        if self.deadline is not None and time.monotonic() > self.deadline:
            self.truncated = True
            return True
        return False

    # -- counting ---------------------------------------------------------------
    def ev(self, n: int = 1):
        self.evaluations += n

    def nt(self, key):
        """Record one distinct non-trivial case (key: canonical description)."""
        self.nontrivial.add(key if isinstance(key, str) and len(key) == 16 else digest(key))

    def label(self, name: str, n: int = 1):
        self.labels[name] += n

    def sample(self, obj):
        if len(self.samples) < MAX_SAMPLES:
            self.samples.append(obj)

    # -- verdicts ---------------------------------------------------------------
    def violation(self, clause: str, case: dict, detail: str, *, bucket: str | None = None,
                  size: int | None = None):
        """Record a violated clause. `case` must be JSON-able and sufficient for replay."""
        detail = str(detail)[:600]
        fid = self._known(clause, case, detail) if self._known else None
        if fid is not None:
            self.known_hits[fid] += 1
            self.known_examples.setdefault(fid, {"clause": clause, "case": case, "detail": detail})
            return
        b = f"{clause}|{bucket}" if bucket else clause
        if size is None:
            size = len(json.dumps(case, default=repr))
        cur = self.violations.get(b)
        if cur is None:
            self.violations[b] = {"clause": clause, "case": case, "detail": detail,
                                  "size": size, "count": 1}
        else:
            cur["count"] += 1
            if size < cur["size"]:
                cur.update(case=case, detail=detail, size=size)

    def replace(self, d: dict):
        """take over the state written by `dump()` (coverage-guided child -> parent)"""
        self.evaluations = d["evaluations"]
        self.nontrivial = set(d["nontrivial"])
        self.samples = list(d["samples"])
        self.labels = collections.Counter(d["labels"])
        self.violations = d["violations"]
        self.known_hits = collections.Counter(d["known_hits"])
        self.known_examples = d["known_examples"]
        self.truncated = d["truncated"]
        self.exhaustive_done = d["exhaustive_done"]

    def absorb(self, d: dict):
        """add the state written by another collector's `dump()` to this one"""
        m = merge([self.dump(), d])
        m["nontrivial"] = list(m["nontrivial"])
        self.replace(m)

    def dump(self) -> dict:
        return {
            "evaluations": self.evaluations,
            "nontrivial": list(self.nontrivial),
            "samples": self.samples,
            "labels": dict(self.labels),
            "violations": self.violations,
            "known_hits": dict(self.known_hits),
            "known_examples": self.known_examples,
            "truncated": self.truncated,
            "exhaustive_done": self.exhaustive_done,
        }


def merge(dumps: list[dict]) -> dict:
    out = {"evaluations": 0, "nontrivial": set(), "samples": [], "labels": collections.Counter(),
           "violations": {}, "known_hits": collections.Counter(), "known_examples": {},
           "truncated": False, "exhaustive_done": True, "shards": len(dumps)}
    for d in dumps:
        out["evaluations"] += d["evaluations"]
        out["nontrivial"].update(d["nontrivial"])
        out["labels"].update(d["labels"])
        out["known_hits"].update(d["known_hits"])
        for k, v in d["known_examples"].items():
            out["known_examples"].setdefault(k, v)
        out["truncated"] = out["truncated"] or d["truncated"]
        out["exhaustive_done"] = out["exhaustive_done"] and d["exhaustive_done"]
        for b, v in d["violations"].items():
            cur = out["violations"].get(b)
            if cur is None:
                out["violations"][b] = dict(v)
            else:
                cur["count"] += v["count"]
                if v["size"] < cur["size"]:
                    cur.update(case=v["case"], detail=v["detail"], size=v["size"])
    # round-robin samples over shards so that they are varied
    pools = [list(d["samples"]) for d in dumps]
    while len(out["samples"]) < MAX_SAMPLES and any(pools):
        for p in pools:
            if p and len(out["samples"]) < MAX_SAMPLES:
                out["samples"].append(p.pop(0))
    return out


# -- Hypothesis driver -----------------------------------------------------------

class _BudgetUsedUp(BaseException):
    """the check's wall-clock budget is used up: stop generating (explored less; never a failure)"""


def drive(strategy, fn, *, n: int, seed: int, col: Collector | None = None):
    """Run `fn(example)` over `n` generated examples, deterministically from `seed`.

    `fn` must not raise for property violations (it reports to the collector); an exception
    escaping from it is a harness fault and propagates.
    """

    if CG is not None:
        from harness import cg
        return cg.drive_cg(strategy, fn, n=n, seed=seed, col=col, cfg=CG)

    @hypothesis.seed(seed)
    @settings(max_examples=n, database=None, deadline=None, derandomize=False,
              phases=[Phase.generate], report_multiple_bugs=False,
              suppress_health_check=list(HealthCheck))
    @given(strategy)
    def _t(x):
        if col is not None and col.out_of_time():
            raise _BudgetUsedUp()  # a BaseException: Hypothesis lets it through at once (no replay, no further examples)
        fn(x)

    try:
        _t()
    except _BudgetUsedUp:
        pass
    except BaseException:
        # Hypothesis may re-run the example in which the budget ran out (and then complains that it stopped drawing earlier
        # than before): a used-up budget means "explored less", whatever the engine makes of the interruption
        if col is not None and col.truncated:
            return
        raise


# -- watchdog ----------------------------------------------------------------------

class WatchdogTimeout(BaseException):
    pass


@contextlib.contextmanager
def watchdog(seconds: int):
    """Raise WatchdogTimeout in the main thread after `seconds` (pure-Python loops only)."""

    import threading

    if threading.current_thread() is not threading.main_thread():
        # worker threads (deep-stack checks): raise asynchronously in this thread from a timer
        import ctypes

        tid = threading.get_ident()
        timer = threading.Timer(seconds, lambda: ctypes.pythonapi.PyThreadState_SetAsyncExc(
            ctypes.c_ulong(tid), ctypes.py_object(WatchdogTimeout)))
        timer.daemon = True
        timer.start()
        try:
            yield
        finally:
            timer.cancel()
        return

    def _h(signum, frame):
        raise WatchdogTimeout()

    old = signal.signal(signal.SIGALRM, _h)
    signal.alarm(seconds)
    try:
        yield
    finally:
        signal.alarm(0)
        signal.signal(signal.SIGALRM, old)
