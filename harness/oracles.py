"""Shared oracles: deep_same, snapshot, json_plain. None of them calls typelib."""

from __future__ import annotations

import collections
import dataclasses
import datetime
import decimal
import enum
import fractions
import math
import pathlib
import re
import types
import uuid


def _cls(x):
    return f"{type(x).__module__}.{type(x).__qualname__}"


def snapshot(x, _depth=0, _seen=None):
    """Canonical, hashable, process-independent description of a value (class + contents).

    Exceptions are described by their class only. Used to compare outcomes across calls,
    processes and time and to detect mutation of inputs.
    """
    if _depth > 400:
        return ("<deep>",)
    if type(x) is int and x.bit_length() > 13000:
        # beyond the interpreter's limit for int -> text (4300 digits): described without ever printing it
        import hashlib
        return (_cls(x), f"<{x.bit_length()} bits, {'-' if x < 0 else '+'}, blake2b {hashlib.blake2b(hex(x).encode(), digest_size=8).hexdigest()}>")
    if x is None or isinstance(x, (bool, int, str, bytes)) and type(x) in (bool, int, str, bytes):
        return (_cls(x), x)
    if type(x) is float:
        if math.isnan(x):
            return ("float", "nan")
        return ("float", repr(x))
    if isinstance(x, BaseException):
        return ("exc", _cls(x))
    if isinstance(x, enum.Enum):
        return ("enum", _cls(x), x.name)
    if isinstance(x, decimal.Decimal):
        return (_cls(x), str(x.as_tuple()))
    if isinstance(x, fractions.Fraction):
        return (_cls(x), x.numerator, x.denominator)
    if isinstance(x, datetime.datetime):
        off = x.utcoffset()
        return (_cls(x), x.replace(tzinfo=None).isoformat(), None if off is None else off.total_seconds())
    if isinstance(x, datetime.time):
        off = x.utcoffset()
        return (_cls(x), x.replace(tzinfo=None).isoformat(), None if off is None else off.total_seconds())
    if isinstance(x, datetime.date):
        return (_cls(x), x.isoformat())
    if isinstance(x, datetime.timedelta):
        return (_cls(x), x.days, x.seconds, x.microseconds)
    if isinstance(x, uuid.UUID):
        return (_cls(x), x.int)
    if isinstance(x, pathlib.PurePath):
        return (_cls(x), str(x))
    if isinstance(x, re.Pattern):
        return (_cls(x), x.pattern, x.flags)
    if isinstance(x, (bytearray, memoryview)):
        return (_cls(x), bytes(x))
    if isinstance(x, (bool, int, float, str, bytes)):  # subclasses of primitives
        base = next(b for b in (bool, int, float, str, bytes) if isinstance(x, b))
        return (_cls(x), base(x) if base is not float else repr(float(x)))
    if _seen is None:
        _seen = set()
    if id(x) in _seen:
        return ("<cycle>",)
    _seen = _seen | {id(x)}
    d = _depth + 1
    if isinstance(x, tuple) and hasattr(x, "_fields"):
        return (_cls(x), tuple((f, snapshot(v, d, _seen)) for f, v in zip(x._fields, x)))
    if isinstance(x, (list, tuple, collections.deque)):
        return (_cls(x), tuple(snapshot(v, d, _seen) for v in x))
    if isinstance(x, (set, frozenset)):
        return (_cls(x), tuple(sorted((snapshot(v, d, _seen) for v in x), key=repr)))
    if isinstance(x, (dict, types.MappingProxyType)):
        # dict equality ignores insertion order, so does the snapshot
        return (_cls(x), tuple(sorted(((snapshot(k, d, _seen), snapshot(v, d, _seen)) for k, v in x.items()), key=repr)))
    if dataclasses.is_dataclass(x) and not isinstance(x, type):
        return (_cls(x), tuple((f.name, snapshot(getattr(x, f.name, "<unset>"), d, _seen))
                               for f in dataclasses.fields(x)))
    if isinstance(x, type):
        return ("type", f"{x.__module__}.{x.__qualname__}")
    slots = []
    for c in type(x).__mro__:
        s = c.__dict__.get("__slots__", ())
        slots.extend([s] if isinstance(s, str) else s)
    if hasattr(x, "__dict__") or slots:
        items = dict(getattr(x, "__dict__", {}))
        for s in slots:
            if s not in ("__dict__", "__weakref__") and hasattr(x, s):
                items[s] = getattr(x, s)
        return (_cls(x), tuple((k, snapshot(v, d, _seen)) for k, v in sorted(items.items())))
    return (_cls(x), repr(x))


def deep_same(a, b) -> bool:
    """Equality that also demands the same runtime class at every position."""
    return snapshot(a) == snapshot(b)


def why_different(a, b) -> str:
    sa, sb = snapshot(a), snapshot(b)
    if sa == sb:
        return ""
    return f"{_short(sa)} != {_short(sb)}"


def _short(s, n=220):
    r = repr(s)
    return r if len(r) <= n else r[:n] + "..."


_PLAIN = (type(None), bool, int, float, str)


def json_plain(m, path="$"):
    """None if `m` consists solely of None/bool/int/float/str/list/dict by *exact* class with
    primitive dict keys; else a description of the first offending position."""
    t = type(m)
    if t in _PLAIN:
        return None
    if t is list:
        for i, v in enumerate(m):
            r = json_plain(v, f"{path}[{i}]")
            if r:
                return r
        return None
    if t is dict:
        for k, v in m.items():
            if type(k) not in _PLAIN:
                return f"{path}: key {k!r} of class {_cls(k)}"
            r = json_plain(v, f"{path}[{k!r}]")
            if r:
                return r
        return None
    return f"{path}: {_short(m, 60)} of class {_cls(m)}"


def mutable_ids(x, acc=None, _depth=0):
    """ids of all mutable containers reachable in x (lists, dicts, sets, deques, bytearrays,
    instances with __dict__)."""
    if acc is None:
        acc = {}
    if _depth > 400 or id(x) in acc:
        return acc
    if isinstance(x, (list, dict, set, collections.deque, bytearray)):
        acc[id(x)] = x
    if isinstance(x, dict):
        for k, v in x.items():
            mutable_ids(k, acc, _depth + 1)
            mutable_ids(v, acc, _depth + 1)
    elif isinstance(x, (list, tuple, set, frozenset, collections.deque)):
        for v in x:
            mutable_ids(v, acc, _depth + 1)
    elif dataclasses.is_dataclass(x) and not isinstance(x, type):
        for f in dataclasses.fields(x):
            mutable_ids(getattr(x, f.name, None), acc, _depth + 1)
    elif hasattr(x, "__dict__") and not isinstance(x, (type, types.ModuleType, types.FunctionType)):
        for v in vars(x).values():
            mutable_ids(v, acc, _depth + 1)
    return acc


def _first_diff(sa, sb):
    """Walk two snapshots in parallel; return the class tags at the first differing position."""
    if sa == sb:
        return None
    if (isinstance(sa, tuple) and isinstance(sb, tuple) and len(sa) >= 2 and len(sb) >= 2
            and sa[0] == sb[0] and isinstance(sa[1], tuple) and isinstance(sb[1], tuple) and len(sa) == len(sb) == 2):
        if len(sa[1]) != len(sb[1]):
            return f"{sa[0]}:len"
        for x, y in zip(sa[1], sb[1]):
            d = _first_diff(x, y)
            if d:
                return d
        return f"{sa[0]}:?"
    ta = sa[0] if isinstance(sa, tuple) and sa and isinstance(sa[0], str) else type(sa).__name__
    tb = sb[0] if isinstance(sb, tuple) and sb and isinstance(sb[0], str) else type(sb).__name__
    if isinstance(sa, tuple) and isinstance(sb, tuple) and len(sa) == len(sb) and ta == tb:
        for x, y in zip(sa[1:], sb[1:]):
            if x != y and isinstance(x, tuple) and isinstance(y, tuple):
                d = _first_diff(x, y)
                if d:
                    return d
        return f"{ta}:value"
    return f"{ta}!={tb}"


def diff_bucket(a, b) -> str:
    """Short, stable label of *where* two values first differ (used to bucket violations by cause)."""
    import re as _re
    d = _first_diff(snapshot(a), snapshot(b)) or "same"
    return _re.sub(r"vu[0-9_]+m", "M", d)[:80]


def exc_bucket(e: BaseException) -> str:
    import re as _re
    msg = _re.sub(r"vu[0-9_]+m", "M", str(e))
    msg = _re.sub(r"[0-9]+", "N", msg)
    msg = _re.sub(r"'[^']*'|\"[^\"]*\"", "S", msg)
    return f"{type(e).__module__}.{type(e).__qualname__}:{msg[:40]}"


_US_2_53 = 2 ** 32 * 10 ** 6  # 2**32 seconds: from here on float64 seconds cannot hold microseconds


def _is_td(s):
    return isinstance(s, tuple) and len(s) == 4 and s[0] in ("datetime.timedelta", "pendulum.duration.Duration") \
        and all(isinstance(x, int) for x in s[1:])


def _td_us(s):
    return (s[1] * 86400 + s[2]) * 10 ** 6 + s[3]


def same_up_to_duration_float(a, b) -> bool:
    """True iff a and b are deep_same except at timedelta leaves of magnitude >= 2**32 seconds
    (~136 years), which may differ by float64 rounding of their total seconds (relative 2**-50).
    Diagnoses the known finding K-DURPREC (pendulum builds durations through float seconds)."""
    return _sudf(snapshot(a), snapshot(b))


def _sudf(sa, sb):
    if sa == sb:
        return True
    if _is_td(sa) and _is_td(sb) and sa[0] == sb[0]:
        ua, ub = _td_us(sa), _td_us(sb)
        big = max(abs(ua), abs(ub))
        return big >= _US_2_53 and abs(ua - ub) <= big * 2.0 ** -50
    if isinstance(sa, tuple) and isinstance(sb, tuple) and len(sa) == len(sb):
        return all(_sudf(x, y) for x, y in zip(sa, sb))
    return False


# ---- fail, repair in place, retry -------------------------------------------------------------------------

class _Poison:
    """a member no routine accepts"""
    def __repr__(self):
        return "<poison>"


def settable_positions(x, acc=None, _depth=0, _seen=None):
    """(container, key, kind) for every position of x that can be overwritten in place and restored: list indices, dict
    values, attributes of instances that allow assignment. Positions directly at the root are included; x itself is not."""
    if acc is None:
        acc, _seen = [], set()
    if _depth > 60 or id(x) in _seen or len(acc) > 400:
        return acc
    _seen.add(id(x))
    if isinstance(x, list):
        for i, v in enumerate(x):
            acc.append((x, i, "item"))
            settable_positions(v, acc, _depth + 1, _seen)
    elif isinstance(x, dict):
        for k, v in x.items():
            acc.append((x, k, "item"))
            settable_positions(v, acc, _depth + 1, _seen)
    elif isinstance(x, (tuple, set, frozenset, collections.deque)):
        for v in x:
            settable_positions(v, acc, _depth + 1, _seen)
    elif isinstance(x, (str, bytes, int, float, type(None), type, types.ModuleType, types.FunctionType)):
        pass
    else:
        names = []
        if dataclasses.is_dataclass(x):
            if not x.__dataclass_params__.frozen:
                names = [f.name for f in dataclasses.fields(x)]
        elif hasattr(x, "__dict__"):
            names = list(vars(x))
        else:
            names = [s for c in type(x).__mro__ for s in c.__dict__.get("__slots__", ()) if hasattr(x, s)]
        for n in names:
            try:
                v = getattr(x, n)
            except Exception:
                continue
            acc.append((x, n, "attr"))
            settable_positions(v, acc, _depth + 1, _seen)
    return acc


def poison_in_place(pos):
    """overwrite one position with a member no routine accepts; returns the undo function (None if the position refuses)"""
    c, k, kind = pos
    try:
        if kind == "item":
            old = c[k]
            c[k] = _Poison()
            return lambda: c.__setitem__(k, old)
        old = getattr(c, k)
        setattr(c, k, _Poison())
        return lambda: setattr(c, k, old)
    except Exception:
        return None
