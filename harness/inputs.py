"""Input sources for the 'any input whatsoever' properties (C03, C13 idempotence, C14, C08).

Every input is produced together with an evaluable source string so that a failing case can be
replayed without Hypothesis: inputs are returned as (src, value) pairs; `src` evaluates (in the
materialised program's namespace) to a fresh equal value.
"""

from __future__ import annotations

import json

from hypothesis import strategies as st

from harness import universe as U

# Junk pool: source strings (evaluated freshly on every use; generators are one-shot).
JUNK = [
    "None", "True", "False", "0", "1", "-1", "2", "10**20", "1.5", "-0.0", "float('nan')", "float('inf')",
    "''", "' '", "'a'", "'ab'", "'abc'", "'1'", "'1.5'", "'null'", "'None'", "'true'", "'[1]'", "'[1, 2]'",
    "'{\"a\": 1}'", "'{}'", "'[]'", "'()'", "'(1, 2)'", "'1,2'", "'{1, 2}'", "'2020-01-01'", "'12:30:00'",
    "'2020-01-01T00:00:00+00:00'", "'PT1S'", "'P1D'", "'not json'", "'{'", "'[1,'", "'\\x00'", "'é'",
    "b''", "b'1'", "b'null'", "b'[1]'", "b'{\"a\": 1}'", "b'\\xff\\xfe'", "'é'.encode('utf-16')",
    "'é'.encode('latin-1')", "bytearray(b'[1, 2]')", "memoryview(b'1')", "memoryview(bytearray(b'\"a\"'))",
    "[]", "[1]", "[1, 2]", "[1, 2, 3]", "['a']", "['a', 'b']", "[[1, 2]]", "[[1, 2], [3, 4]]", "[None]", "[{}]",
    "()", "(1,)", "(1, 2)", "('a', 1)", "{}", "{'a': 1}", "{'a': None}", "{1: 2}", "{'a': {'b': 1}}",
    "{'a': [1]}", "set()", "{1, 2}", "frozenset([1])", "{'x': 1, 'y': 2, 'z': 3}",
    "(x for x in [1, 2])", "(x for x in [])", "iter([('a', 1)])", "iter([])", "range(3)",
    "object()", "int", "len", "collections.OrderedDict(a=1)", "collections.deque([1, 2])",
    "decimal.Decimal('1.5')", "fractions.Fraction(1, 3)", "uuid.UUID(int=5)", "pathlib.PurePosixPath('a/b')",
    "datetime.date(2020, 1, 2)", "datetime.datetime(2020, 1, 2, 3, 4, 5, tzinfo=datetime.timezone.utc)",
    "datetime.time(1, 2, 3, tzinfo=datetime.timezone.utc)", "datetime.timedelta(days=1, seconds=2)",
    "re.compile('a+')", "Ellipsis", "NotImplemented", "1j", "b'\\x80abc'", "'\\ud800'",
    "types.SimpleNamespace(a=1, b='x')", "[('a', 1), ('b', 2)]", "[['a', 1]]", "'a' * 5000", "[0] * 300",
]

NS_EXTRA = "import types, collections, decimal, fractions, uuid, pathlib, datetime, re\n"


def eval_src(src: str, mat=None):
    ns = dict(mat.ns) if mat is not None else {}
    exec(NS_EXTRA + U.PRELUDE, ns)  # noqa: S102
    if mat is not None:
        ns.update(mat.ns)
    return eval(src, ns)  # noqa: S307


def junk():
    return st.sampled_from(JUNK)


# ---- corruption of wire forms -----------------------------------------------------------------

_RETYPE = [None, 0, 1, "x", "1", [], [1], {}, {"a": 1}, 1.5, True, "null", [[1, 2]], "2020-01-01"]


@st.composite
def corrupt(draw, m, depth=0):
    """1-3 structural mutations of a plain wire value (dict/list/primitives)."""
    n = draw(st.integers(1, 3)) if depth == 0 else 1
    for _ in range(n):
        m = draw(_mutate(m, depth))
    return m


@st.composite
def _mutate(draw, m, depth):
    if isinstance(m, dict) and m and draw(st.integers(0, 2)) and depth < 6:
        # descend into a value
        k = draw(st.sampled_from(list(m.keys())))
        out = dict(m)
        out[k] = draw(_mutate(m[k], depth + 1))
        return out
    if isinstance(m, list) and m and draw(st.integers(0, 2)) and depth < 6:
        i = draw(st.integers(0, len(m) - 1))
        out = list(m)
        out[i] = draw(_mutate(m[i], depth + 1))
        return out
    ops = ["retype", "wrap", "none"]
    if isinstance(m, dict):
        ops += ["drop", "rename", "add", "to_pairs", "to_list_of_values", "rekey"] * 2
    if isinstance(m, list):
        ops += ["remove", "append", "dup", "to_dict", "to_tuple", "unwrap"] * 2
    if isinstance(m, str):
        ops += ["to_bytes", "quote", "truncate"]
    op = draw(st.sampled_from(ops))
    if op == "retype":
        return draw(st.sampled_from(_RETYPE))
    if op == "none":
        return None
    if op == "wrap":
        return [m]
    if op == "drop" and m:
        k = draw(st.sampled_from(list(m.keys())))
        return {a: b for a, b in m.items() if a != k}
    if op == "rename" and m:
        k = draw(st.sampled_from(list(m.keys())))
        return {(f"{a}_x" if a == k and isinstance(a, str) else a): b for a, b in m.items()}
    if op == "add":
        return {**m, "extra": 1}
    if op == "rekey" and m:
        # keys of another type (a mapping literal, not a JSON object, once it is rendered as text)
        mk = draw(st.sampled_from([lambda i, a: i, lambda i, a: (i, i), lambda i, a: None if i == 0 else i, lambda i, a: i + 0.5, lambda i, a: bool(i % 2) if i < 2 else i]))
        return {mk(i, a): b for i, (a, b) in enumerate(m.items())}
    if op == "to_pairs":
        return [[a, b] for a, b in m.items()]
    if op == "to_list_of_values":
        return list(m.values())
    if op == "remove" and m:
        i = draw(st.integers(0, len(m) - 1))
        return m[:i] + m[i + 1:]
    if op == "append":
        return [*m, draw(st.sampled_from(_RETYPE))]
    if op == "dup" and m:
        return [*m, m[-1]]
    if op == "to_dict":
        return {str(i): x for i, x in enumerate(m)}
    if op == "to_tuple":
        return tuple(m)
    if op == "unwrap" and m:
        return m[0]
    if op == "to_bytes":
        return m.encode("utf-8", "surrogatepass")
    if op == "quote":
        return json.dumps(m)
    if op == "truncate":
        return m[: len(m) // 2]
    return draw(st.sampled_from(_RETYPE))


def is_plain(m, depth=0) -> bool:
    if depth > 200:
        return False
    if m is None or type(m) in (bool, int, float, str, bytes):
        return True
    if type(m) in (list, tuple):
        return all(is_plain(x, depth + 1) for x in m)
    if type(m) is dict:
        return all(is_plain(k, depth + 1) and is_plain(v, depth + 1) for k, v in m.items())
    return False


def json_keys_ok(m) -> bool:
    """True if every mapping in m is str-keyed (json.dumps would not rewrite keys)."""
    if type(m) is dict:
        return all(type(k) is str and json_keys_ok(v) for k, v in m.items())
    if type(m) in (list, tuple):
        return all(json_keys_ok(x) for x in m)
    return True


# (the last one: a memoryview that is a *window* into a larger buffer - a slice of a receive buffer; still "the same bytes given as
# memoryview")
CARRIERS = ["str", "bytes", "bytearray", "memoryview(bytes)", "memoryview(bytearray)", "memoryview(window)"]


def carrier_src(text: str, carrier: str) -> str:
    b = text.encode("utf-8")
    return {
        "str": repr(text),
        "bytes": repr(b),
        "bytearray": f"bytearray({b!r})",
        "memoryview(bytes)": f"memoryview({b!r})",
        "memoryview(bytearray)": f"memoryview(bytearray({b!r}))",
        "memoryview(window)": f"memoryview({b'17' + b + b'30M'!r})[2:{2 + len(b)}]",
    }[carrier]


def carry(text: str, carrier: str):
    b = text.encode("utf-8")
    return {"str": lambda: text, "bytes": lambda: b, "bytearray": lambda: bytearray(b),
            "memoryview(bytes)": lambda: memoryview(b), "memoryview(bytearray)": lambda: memoryview(bytearray(b)),
            "memoryview(window)": lambda: memoryview(b"17" + b + b"30M")[2:2 + len(b)]}[carrier]()


@st.composite
def any_input(draw, p, valid_values):
    """(src, kind) for program p: 40 % corrupted wire form, 30 % junk, 20 % text/bytes renderings,
    10 % valid wire forms. `valid_values`: strategy of valid instances (or None)."""
    mat = p.mat
    r = draw(st.integers(0, 9))
    wire = None
    if valid_values is not None and r != 4 and r != 5 and r != 6:
        v = draw(valid_values)
        try:
            wire = U.plain_wire(p.spec, v, mat)
        except Exception:
            wire = None
    if wire is None:
        return draw(junk()), "junk"
    if r <= 3:
        c = draw(corrupt(wire))
        return (repr(c) if is_plain(c) else U.to_src(c, mat)), "corrupted-wire"
    if r == 9:
        return repr(wire), "valid-wire"
    # renderings of a (possibly corrupted) wire form
    c = draw(corrupt(wire)) if draw(st.booleans()) else wire
    if not is_plain(c):
        return U.to_src(c, mat), "corrupted-wire"
    form = draw(st.sampled_from(["json", "repr"]))
    try:
        text = json.dumps(c) if (form == "json" and json_keys_ok(c) and not _has_bytes(c)) else repr(c)
    except (TypeError, ValueError):
        text = repr(c)
    carrier = draw(st.sampled_from(CARRIERS))
    enc = draw(st.sampled_from(["utf-8", "utf-8", "utf-8", "utf-16", "latin-1"]))
    if enc != "utf-8" and carrier != "str":
        try:
            b = text.encode(enc)
        except UnicodeEncodeError:
            b = text.encode("utf-8")
        return repr(b), f"text:{form}:{enc}"
    return carrier_src(text, carrier), f"text:{form}:{carrier}"


def _has_bytes(m) -> bool:
    if isinstance(m, bytes):
        return True
    if isinstance(m, dict):
        return any(_has_bytes(k) or _has_bytes(v) for k, v in m.items())
    if isinstance(m, (list, tuple)):
        return any(_has_bytes(x) for x in m)
    return False
