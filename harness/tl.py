"""Binding to the code under test (the working tree of seandstewart/python-typelib).

* `VERIF_REPO_ROOT` (default /repo) names the tree; `<root>/src` is put first on sys.path
  so that a scratch copy can be checked with the same machinery (mutation runs).
* `clear_all()` clears every functools cache reachable from any `typelib.*` module.
* `call(f, *a)` turns a call into ("ok", value) / ("exc", exception) for Exception
  subclasses only.
"""

from __future__ import annotations

import os
import sys
import warnings

REPO_ROOT = os.path.realpath(os.environ.get("VERIF_REPO_ROOT", "/repo"))
_SRC = os.path.join(REPO_ROOT, "src")
if _SRC not in sys.path:
    sys.path.insert(0, _SRC)

warnings.simplefilter("ignore")

try:
    import typelib  # noqa: E402
    import typelib.binding  # noqa: E402,F401
    import typelib.codecs  # noqa: E402,F401
    import typelib.ctx  # noqa: E402,F401
    import typelib.graph  # noqa: E402,F401
    import typelib.serdes  # noqa: E402,F401
    import typelib.py.classes  # noqa: E402,F401
    import typelib.py.frames  # noqa: E402,F401
    import typelib.py.future  # noqa: E402,F401
    import typelib.py.inspection  # noqa: E402,F401
    import typelib.py.refs  # noqa: E402,F401
    from typelib import marshals, unmarshals  # noqa: E402,F401
except Exception as e:  # pragma: no cover - harness fault, never a VIOLATION
    print(f"HARNESS-ERROR cannot import typelib from {_SRC}: {e!r}", file=sys.stderr)
    raise SystemExit(2)

if not os.path.realpath(typelib.__file__).startswith(_SRC + os.sep):
    print(
        f"HARNESS-ERROR typelib imported from {typelib.__file__}, expected under {_SRC}",
        file=sys.stderr,
    )
    raise SystemExit(2)

marshal = typelib.marshal
unmarshal = typelib.unmarshal
marshaller = typelib.marshaller
unmarshaller = typelib.unmarshaller
codec = typelib.codec
serdes = typelib.serdes
graph = typelib.graph
inspection = typelib.py.inspection
refs = typelib.py.refs


def _cached_functions():
    seen = {}
    for name, mod in list(sys.modules.items()):
        if name != "typelib" and not name.startswith("typelib."):
            continue
        for v in list(vars(mod).values()):
            cc = getattr(v, "cache_clear", None)
            if cc is not None and callable(cc):
                seen[id(v)] = v
    return list(seen.values())


_CACHED = None


def clear_all():
    """cache_clear() on every cached callable of every typelib module."""
    global _CACHED
    if _CACHED is None:
        _CACHED = _cached_functions()
    for f in _CACHED:
        f.cache_clear()
    # CPython's own typing caches key subscriptions by equality (`Final[A | B]` is served from `Final[B | A]`): a
    # program must not inherit the member order of an equal annotation built by an earlier program of this process
    import typing as _typing

    for f in list(getattr(_typing, "_cleanups", ())):
        try:
            f()
        except Exception:
            pass
    # the slotted() decorator keeps a module-level re-entrancy set
    st = getattr(typelib.py.classes, "_stack", None)
    if st is not None:
        try:
            st.clear()
        except Exception:
            pass


def n_caches() -> int:
    global _CACHED
    if _CACHED is None:
        _CACHED = _cached_functions()
    return len(_CACHED)


def call(f, *a, **k):
    """("ok", value) | ("exc", exception). Only Exception subclasses are captured."""
    try:
        with warnings.catch_warnings():
            warnings.simplefilter("ignore")
            return ("ok", f(*a, **k))
    except RecursionError as e:
        return ("exc", e)
    except Exception as e:  # noqa: BLE001 - by design
        return ("exc", e)


def exc_name(e: BaseException) -> str:
    t = type(e)
    return f"{t.__module__}.{t.__qualname__}"
