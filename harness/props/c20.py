"""C20 - annotation rewriting (typelib.py.future.transform) preserves meaning.

Generator : a Hypothesis grammar of annotation expressions (names, dotted names, subscripts,
            tuples, ellipsis, |-chains in every parenthesisation, Literal with '|'/'[' strings,
            Callable, Annotated, quoted forward references) and of non-annotation expressions
            (arithmetic / bit operators next to |, calls, comparisons, displays), depth <= 4;
            plus an exhaustive operator-pair table (every `a op1 b op2 c` in both
            parenthesisations and three embeddings).
Oracle    : (1) symbolic evaluation of input and output in a namespace where every name
            records the tree built on it; Union[..] and | both build a flattened union node,
            typing.Dict/List/Set/Tuple/Pattern are identified with the bare names; constants
            are lifted to leaves by the same AST pre-pass on both sides. Trees must be equal.
            (1b) when both strings evaluate against real types: same origin/args recursively.
            (2) no BinOp(BitOr) in the output's AST. (3) transform(out) == out.
            (4) input without | and without the five bare names -> identical AST.
"""

from __future__ import annotations

import ast
import itertools
import types
import typing

from harness import core, tl
from harness.core import st

ID = "C20"
RULE = ("expressions drawn from the annotation/non-annotation grammar (depth<=4) plus the exhaustive "
        "operator-pair table; non-trivial = the input AST has a `|` inside a subscript, a `|` whose "
        "operand is itself a parenthesised `|` on the right, or a `|` adjacent (parent/child) to a "
        "non-`|` binary operator; distinct by input string")
ASSUMPTIONS = [
    "symbolic evaluation (names as recording objects) is a faithful model of 'same origins and arguments'",
    "single-element subscripts X[a] and X[(a,)] are identified",
]
TECHNIQUE = "property-based testing: Hypothesis expression grammar + exhaustive operator table; metamorphic oracle by symbolic evaluation (differential against real typing evaluation), fixpoint and AST-identity laws"
LEVEL_TEXT = ("Generated-input exploration: tens of thousands of grammar-generated annotation and non-annotation "
              "expressions per run plus a complete operator-pair table, each judged by four executable clauses. "
              "Finds structural rewrite errors; does not prove their absence beyond depth 4.")
LEVEL_NOTE = "trusts CPython's ast.parse/ast.unparse and the harness's symbolic evaluator (names as recording objects)"
EXHAUSTIVE_NOTE = "operator-pair table: 12x12 binary operators x 2 parenthesisations+flat x 3 embeddings, enumerated completely on every run"

transform = tl.typelib.py.future.transform

# --------------------------------------------------------------------------------------
# symbolic evaluation
# --------------------------------------------------------------------------------------

_TYPING_EQUIV = {"Dict": "dict", "List": "list", "Set": "set", "Tuple": "tuple", "Pattern": "Pattern"}


class Sym:
    __slots__ = ("node",)

    def __init__(self, node):
        object.__setattr__(self, "node", node)

    def __getattr__(self, name):
        if name.startswith("__") and name.endswith("__"):
            raise AttributeError(name)
        return Sym(("attr", self.node, name))

    def __getitem__(self, item):
        items = item if isinstance(item, tuple) else (item,)
        return Sym(("sub", self.node, tuple(freeze_raw(i) for i in items)))

    def __call__(self, *a, **k):
        return Sym(("call", self.node, tuple(freeze_raw(i) for i in a),
                    tuple(sorted((n, freeze_raw(v)) for n, v in k.items()))))

    def __bool__(self):
        return True

    def __hash__(self):
        return hash(self.node)

    def __eq__(self, other):  # comparisons are recorded, not decided
        return Sym(("cmp", "==", self.node, freeze_raw(other)))

    def __neg__(self):
        return Sym(("neg", self.node))

    def __invert__(self):
        return Sym(("inv", self.node))


def _binop(sym):
    def f(self, other):
        return Sym(("op", sym, self.node, freeze_raw(other)))

    def r(self, other):
        return Sym(("op", sym, freeze_raw(other), self.node))

    return f, r


for _name, _sym in [("or", "|"), ("and", "&"), ("add", "+"), ("sub", "-"), ("mul", "*"), ("xor", "^"),
                    ("lshift", "<<"), ("rshift", ">>"), ("floordiv", "//"), ("mod", "%"),
                    ("matmul", "@"), ("pow", "**"), ("truediv", "/")]:
    _f, _r = _binop(_sym)
    setattr(Sym, f"__{_name}__", _f)
    setattr(Sym, f"__r{_name}__", _r)
for _name, _sym in [("lt", "<"), ("gt", ">"), ("le", "<="), ("ge", ">="), ("ne", "!=")]:
    setattr(Sym, f"__{_name}__", (lambda s: lambda self, other: Sym(("cmp", s, self.node, freeze_raw(other))))(_sym))


def freeze_raw(x):
    """Node of a value produced during symbolic evaluation (Sym or a display of Syms)."""
    if isinstance(x, Sym):
        return x.node
    if isinstance(x, (list, tuple)):
        return (type(x).__name__, tuple(freeze_raw(i) for i in x))
    if isinstance(x, dict):
        return ("dictdisplay", tuple((freeze_raw(k), freeze_raw(v)) for k, v in x.items()))
    if isinstance(x, (set, frozenset)):
        return ("setdisplay", tuple(sorted((freeze_raw(i) for i in x), key=repr)))
    return ("py", repr(x))


def canon(node):
    """Normal form: unions flattened/deduplicated in order, typing.X identified with x."""
    if not isinstance(node, tuple) or not node:
        return node
    tag = node[0]
    if tag == "attr" and node[1] == ("name", "typing") and node[2] in _TYPING_EQUIV:
        return ("name", _TYPING_EQUIV[node[2]])
    if tag == "op" and node[1] == "|":
        return _union([canon(node[2]), canon(node[3])])
    if tag == "sub":
        base = canon(node[1])
        args = tuple(canon(a) for a in node[2])
        if base == ("attr", ("name", "typing"), "Union"):
            return _union(list(args))
        return ("sub", base, args)
    return tuple(canon(n) if isinstance(n, tuple) else n for n in node)


def _union(members):
    flat = []
    for m in members:
        if isinstance(m, tuple) and m and m[0] == "union":
            flat.extend(m[1])
        else:
            flat.append(m)
    out = []
    for m in flat:
        if m not in out:
            out.append(m)
    if len(out) == 1:
        return out[0]
    return ("union", tuple(out))


class _Lift(ast.NodeTransformer):
    """Replace every constant by a call producing a symbolic leaf (same on both sides)."""

    def visit_Constant(self, node):
        new = ast.Call(func=ast.Name(id="__const__", ctx=ast.Load()),
                       args=[ast.Constant(value=repr(node.value))], keywords=[])
        return ast.copy_location(new, node)

    def _disp(self, node):
        # list/dict/set displays become symbolic leaves too: `{a: b} | {c: d}` must not be
        # *executed* as a dict merge by the oracle.
        self.generic_visit(node)
        new = ast.Call(func=ast.Name(id="__disp__", ctx=ast.Load()), args=[node], keywords=[])
        return ast.copy_location(new, node)

    visit_List = visit_Dict = visit_Set = _disp


class _NS(dict):
    def __missing__(self, key):
        if key == "__const__":
            return lambda r: Sym(("const", r))
        if key == "__disp__":
            return lambda d: Sym(("display", freeze_raw(d)))
        return Sym(("name", key))


def symeval(expr: str):
    tree = ast.parse(expr, mode="eval")
    tree = ast.fix_missing_locations(_Lift().visit(tree))
    code = compile(tree, "<sym>", "eval")
    return canon(freeze_raw(eval(code, {"__builtins__": {}}, _NS())))  # noqa: S307


# --------------------------------------------------------------------------------------
# real evaluation (secondary)
# --------------------------------------------------------------------------------------

def _real_ns():
    import collections.abc
    import datetime
    import decimal
    import re

    T = typing.TypeVar("T")

    class Foo(typing.Generic[T]):
        class Inner:
            pass

    class Bar:
        pass

    return {"typing": typing, "collections": collections, "datetime": datetime, "decimal": decimal,
            "re": re, "Foo": Foo, "Bar": Bar, "T": T, "Pattern": typing.Pattern}


_REAL = None


def realstruct(expr: str):
    global _REAL
    if _REAL is None:
        _REAL = _real_ns()
    v = eval(expr, dict(_REAL))  # noqa: S307
    return _struct(v)


_ORIGIN_EQ = {typing.Union: "Union", types.UnionType: "Union"}


def _struct(v):
    if isinstance(v, (list, tuple)):
        return (type(v).__name__, tuple(_struct(i) for i in v))
    if isinstance(v, dict):
        return ("dict", tuple((_struct(k), _struct(x)) for k, x in v.items()))
    if isinstance(v, (set, frozenset)):
        return ("set", tuple(sorted((_struct(i) for i in v), key=repr)))
    if isinstance(v, str):  # typing generics turn string arguments into ForwardRefs
        return ("fwd", v)
    if isinstance(v, typing.ForwardRef):
        return ("fwd", v.__forward_arg__)
    o = typing.get_origin(v)
    if v is None:  # typing normalises None to NoneType inside its own generics
        v = type(None)
    if o is None:
        return ("leaf", repr(v))
    a = typing.get_args(v)
    if not a:  # typing.Set (bare alias) is the same type as set
        return ("leaf", repr(o))
    if o is typing.Literal:
        return ("Literal", tuple(repr(x) for x in a))
    if o in _ORIGIN_EQ:
        # typing.Union and types.UnionType deduplicate/flatten/order members differently
        # (`dict | typing.Dict` keeps both, Union[...] merges them): compare as a set.
        ms = set()
        for x in a:
            sx = _struct(x)
            ms.update(sx[1]) if sx[0] == "Union" else ms.add(sx)
        if len(ms) == 1:
            return next(iter(ms))
        return ("Union", frozenset(ms))
    return (repr(o), tuple(_struct(x) for x in a))


# --------------------------------------------------------------------------------------
# the check of one expression
# --------------------------------------------------------------------------------------

_BARE = {"dict", "list", "set", "tuple", "Pattern"}


def _is_bitor(n):
    return isinstance(n, ast.BinOp) and isinstance(n.op, ast.BitOr)


def classify(tree) -> tuple[bool, bool, bool]:
    """(has_bitor, has_bare_name, nontrivial)"""
    has_or = has_bare = nontriv = False
    for n in ast.walk(tree):
        if isinstance(n, ast.Name) and n.id in _BARE:
            has_bare = True
        if isinstance(n, ast.Subscript):
            if any(_is_bitor(m) for m in ast.walk(n.slice)):
                nontriv = True
        if isinstance(n, ast.BinOp):
            if _is_bitor(n):
                has_or = True
                if _is_bitor(n.right):
                    nontriv = True
                for c in (n.left, n.right):
                    if isinstance(c, ast.BinOp) and not _is_bitor(c):
                        nontriv = True
            else:
                for c in (n.left, n.right):
                    if _is_bitor(c):
                        nontriv = True
    return has_or, has_bare, nontriv


def respaced(expr: str):
    """variants of `expr` that differ only in whitespace: inside string constants (a different
    expression - the constant changes) and between tokens (the same expression)"""
    out = []
    if "|" in expr:
        out.append(expr.replace(" | ", "|"))
        out.append(expr.replace("|", " | "))
        out.append(expr.replace("|", "  |  "))
    if "'" in expr or '"' in expr:
        out.append(expr.replace("a|b", "a | b").replace("Foo | None", "Foo|None").replace("m|x[", "m | x ["))
    out.append(expr.replace(", ", ",").replace("[", "[ "))
    return [e for e in dict.fromkeys(out) if e != expr]


def check_expr(expr: str, col: core.Collector, source: str = "grammar", _variants=True):
    if _variants and source != "replay-variant":
        _check_one(expr, col, source, clear=True)
        # the same process then sees whitespace variants: results must not depend on what was transformed before
        for v in respaced(expr)[:3]:
            _check_one(v, col, "respaced", clear=False, history=[expr])
        return
    _check_one(expr, col, source, clear=True)


def _check_one(expr: str, col: core.Collector, source: str, clear: bool, history=None):
    case = {"expr": expr}
    if history:
        case["history"] = history
    try:
        tree = ast.parse(expr, mode="eval")
    except (SyntaxError, ValueError, RecursionError, MemoryError):
        col.label("input:unparsable")
        return
    col.ev()
    has_or, has_bare, nontriv = classify(tree)
    col.label(f"src:{source}")
    if nontriv:
        col.nt(expr)
        col.label("nontrivial")
    if has_or:
        col.label("has_bitor")
    col.sample(expr) if nontriv else None

    if clear:
        transform.cache_clear()
    kind, out = tl.call(transform, expr)
    if kind == "exc":
        col.violation("transform-raises", case, f"{tl.exc_name(out)}: {out}", bucket=tl.exc_name(out))
        return
    if not isinstance(out, str):
        col.violation("transform-returns-str", case, f"returned {type(out).__name__}")
        return
    try:
        otree = ast.parse(out, mode="eval")
    except SyntaxError as e:
        col.violation("output-parses", case, f"{out!r}: {e}")
        return
    # (2) no PEP 604 union left outside constants
    if any(_is_bitor(n) for n in ast.walk(otree)):
        col.violation("no-bitor-left", case, f"output {out!r} still contains a | operator")
    # (2b) the documented builtin names are spelt typing.X wherever they occur as names (bare or subscripted)
    left = sorted({n.id for n in ast.walk(otree) if isinstance(n, ast.Name) and n.id in _BARE})
    if left:
        col.violation("builtin-names-rewritten", case, f"output {out!r} still names {left}", bucket=",".join(left))
    # (3) fixpoint
    k2, out2 = tl.call(transform, out)
    if k2 == "exc" or out2 != out:
        col.violation("fixpoint", case, f"transform({out!r}) -> {out2!r}")
    # (4) identity on inputs without the constructs
    if not has_or and not has_bare:
        if ast.dump(tree) != ast.dump(otree):
            col.violation("identity-without-constructs", case, f"output {out!r}")
    # (1) same structure, symbolically
    try:
        a = symeval(expr)
    except Exception as e:  # the generator only emits evaluable expressions
        col.label("symeval-input-failed:" + type(e).__name__)
        return
    try:
        b = symeval(out)
    except Exception as e:
        col.violation("same-structure", case, f"output {out!r} does not evaluate symbolically: {e!r}")
        return
    if a != b:
        col.violation("same-structure", case, f"output {out!r}: {a!r} != {b!r}"[:500])
    # (1b) against real types when both evaluate (pure annotation grammar only: elsewhere
    #      `|` may be a real dict merge or arithmetic and "raises" is not about types)
    if source not in ("ann", "replay-ann"):
        return
    try:
        ra = realstruct(expr)
    except Exception:
        return
    try:
        rb = realstruct(out)
    except Exception as e:
        col.violation("same-structure-real", case, f"input evaluates, output {out!r} raises {e!r}")
        return
    col.label("real-evaluated")
    if ra != rb:
        col.violation("same-structure-real", case, f"output {out!r}: {ra!r} != {rb!r}"[:500])


# --------------------------------------------------------------------------------------
# generators
# --------------------------------------------------------------------------------------

NAMES = ["int", "str", "float", "bool", "bytes", "None", "list", "dict", "set", "tuple", "Pattern",
         "frozenset", "Foo", "Bar", "T"]
DOTTED = ["typing.Any", "typing.List", "typing.Dict", "typing.Set", "typing.Tuple", "datetime.date",
          "decimal.Decimal", "re.Pattern", "collections.abc.Mapping", "Foo.Inner", "typing.Pattern"]
LEAF_EXTRA = ["'Foo'", "'Foo | None'", "\"list[int] | None\"", "typing.Literal['a|b', 'x[y', 1]",
              "typing.Literal['|']", "typing.Literal[1, None]", "tuple[()]", "typing.Callable[..., int]"]
ONE = ["list", "set", "frozenset", "typing.List", "typing.Optional", "Foo", "typing.Sequence", "type",
       "typing.Set", "collections.abc.Iterable"]
TWO = ["dict", "typing.Dict", "typing.Mapping", "collections.abc.Mapping"]
BINOPS = ["|", "&", "+", "-", "*", "^", "<<", ">>", "//", "%", "@", "**"]


def _leaf():
    return st.sampled_from(NAMES + DOTTED + LEAF_EXTRA)


def _ann(children):
    c = children
    return st.one_of(
        st.builds(lambda g, a: f"{g}[{a}]", st.sampled_from(ONE), c),
        st.builds(lambda g, a, b: f"{g}[{a}, {b}]", st.sampled_from(TWO), c, c),
        st.builds(lambda a: f"tuple[{a}, ...]", c),
        st.builds(lambda a, b: f"tuple[{a}, {b}]", c, c),
        st.builds(lambda a, b, d: f"typing.Tuple[{a}, {b}, {d}]", c, c, c),
        st.builds(lambda a, b: f"{a} | {b}", c, c),
        st.builds(lambda a, b, d: f"{a} | {b} | {d}", c, c, c),
        st.builds(lambda a, b, d: f"({a} | {b}) | {d}", c, c, c),
        st.builds(lambda a, b, d: f"{a} | ({b} | {d})", c, c, c),
        st.builds(lambda a, b: f"typing.Union[{a}, {b}]", c, c),
        st.builds(lambda a, b, d: f"typing.Callable[[{a}, {b}], {d}]", c, c, c),
        st.builds(lambda a: f"typing.Callable[..., {a}]", c),
        st.builds(lambda a: f"typing.Annotated[{a}, 'm|x[']", c),
        st.builds(lambda a: f"({a})", c),
    )


def annotations():
    return st.recursive(_leaf(), _ann, max_leaves=12)


def _nonann(children):
    c = children
    op = st.sampled_from(BINOPS)
    return st.one_of(
        _ann(c),
        st.builds(lambda a, o, b: f"{a} {o} {b}", c, op, c),
        st.builds(lambda a, o, b: f"({a}) {o} ({b})", c, op, c),
        st.builds(lambda a, o, b, p, d: f"{a} {o} {b} {p} {d}", c, op, c, op, c),
        st.builds(lambda a: f"f({a})", c),
        st.builds(lambda a, b: f"f({a}, k={b})", c, c),
        st.builds(lambda a, b: f"({a}) < ({b})", c, c),
        st.builds(lambda a: f"-({a})", c),
        st.builds(lambda a, b: f"[{a}, {b}]", c, c),
        st.builds(lambda a: f"({a}).attr", c),
        st.builds(lambda a, b, d: f"({a}) + Foo[{b} | {d}]", c, c, c),
        st.builds(lambda a, b: f"{{{a}: {b}}}", _leaf(), c),
    )


def expressions():
    return st.recursive(_leaf(), _nonann, max_leaves=10)


def operator_table():
    for o1, o2 in itertools.product(BINOPS, BINOPS):
        for form in ("a {0} b {1} c", "(a {0} b) {1} c", "a {0} (b {1} c)"):
            e = form.format(o1, o2)
            yield e
            yield f"Foo[{e}]"
            yield f"f(x, k={e})"


# --------------------------------------------------------------------------------------
# runner interface
# --------------------------------------------------------------------------------------

def plan(tier, seed):
    n = 2000 if tier == "quick" else 25000
    shards = [{"kind": "table"}]
    for k in range(16):
        shards.append({"kind": "ann" if k % 2 == 0 else "expr", "seed": seed * 1000 + k, "n": n})
    return shards


def run_shard(shard, col):
    if shard["kind"] == "table":
        for e in operator_table():
            check_expr(e, col, "table")
        col.exhaustive_done = True
        return
    strat = annotations() if shard["kind"] == "ann" else expressions()
    core.drive(strat, lambda e: check_expr(e, col, shard["kind"]), n=shard["n"], seed=shard["seed"], col=col)


def replay(clause, case, col):
    if case.get("history"):
        transform.cache_clear()
        for h in case["history"]:
            tl.call(transform, h)
        _check_one(case["expr"], col, "replay", clear=False, history=case["history"])
        return
    check_expr(case["expr"], col, "replay-ann" if clause == "same-structure-real" else "replay")


def cg_plan(seed):
    # future.transform is a pure-Python AST visitor: real coverage feedback
    return [{"kind": k, "seed": seed * 1000 + 900 + i, "n": 0, "cg": {"runs": 60000}} for i, k in enumerate(["ann", "expr", "ann", "expr"])]
