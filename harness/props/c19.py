"""C19 - classes.slotted(C) behaves like dataclass C.

Each generated program is emitted twice from the same source: undecorated in module `<m>_orig`,
with `@classes.slotted(dict=.., weakref=..)` stacked on `@dataclasses.dataclass(..)` in module
`<m>_slot` (same qualified names, so pickle resolves each class in its own module). A program
has 1-4 classes (names from a tiny pool so that names repeat), optional single inheritance from
an unslotted / slotted / hand-slotted base, optional decorations that are *expected* to fail
(a non-dataclass) placed before a valid class of the same name.

Oracle: differential on instances built from the same arguments (fields, ==, hash, repr,
ordering, copy, deepcopy, pickle, frozen-ness, defaults, isinstance, qualname/module) plus the
slots sandwich, no per-instance __dict__ unless requested or inherited, and "decoration never
raises for a plain-metaclass dataclass, in any order".
"""

from __future__ import annotations

import copy
import dataclasses
import pickle
import sys
import types

from harness import core, tl
from harness.core import st
from harness.oracles import snapshot

ID = "C19"
RULE = ("synthesised dataclass programs (1-4 classes, 0-5 fields, defaults/default_factory, frozen/eq/order/"
        "unsafe_hash, optional base, user __getstate__/__setstate__, all (dict, weakref) pairs, failing decorations "
        "interleaved); non-trivial = inheritance, frozen (pickle path), or a decoration history of length >= 2; "
        "distinct by program source")
ASSUMPTIONS = ["classes using zero-argument super(), native slots=True dataclasses and custom metaclasses are outside the domain",
               "slots rule asserted as a sandwich: own fields <= __slots__ <= fields + requested extras, disjoint from base slots"]
TECHNIQUE = "property-based testing: generated dataclass programs emitted twice (plain vs slotted), differential oracle on instance behaviour + structural invariants; decoration histories as operation sequences"
LEVEL_TEXT = ("Exploration over generated dataclass programs and decoration orders; every behaviour the property names is "
              "observed on both the original and the slotted class built from identical source and compared.")
LEVEL_NOTE = "trusts CPython's dataclasses/copy/pickle as the definition of the original class's behaviour"

FIELD_NAMES = ["a", "b", "c", "d", "e"]
CLASS_NAMES = ["A", "B", "Item"]


@st.composite
def class_spec(draw, idx, prev):
    name = draw(st.sampled_from(CLASS_NAMES))
    frozen = draw(st.booleans())
    eq = draw(st.sampled_from([True, True, False]))
    order = eq and draw(st.booleans())
    unsafe_hash = draw(st.sampled_from([False, False, True]))
    # single inheritance, optionally through a second ancestor: root(unslotted|slotted) <- mid(unslotted|slotted) <- class
    base = draw(st.sampled_from([None, None, "unslotted", "slotted", "hand", "unslotted>unslotted", "unslotted>slotted",
                                 "slotted>slotted", "slotted>unslotted", "hand>unslotted"]))
    # the dataclass base declares a, b and sometimes c; its name is unique or shared by all classes of the program
    # (two different bases called `Base` in one module, each slotted on its own terms)
    base_extra = bool(base) and base != "hand" and draw(st.integers(0, 2)) == 0
    nb = 0 if base is None else (3 if base_extra else 2)
    nf = draw(st.integers(0, 5 if base is None else 5 - nb))
    names = FIELD_NAMES[nb:nb + nf]
    first_default = draw(st.integers(0, nf))
    base_has_default = base is not None and base != "hand" and draw(st.booleans())
    fields = []
    for i, n in enumerate(names):
        typ = draw(st.sampled_from(["int", "str", "list"]))
        d = None
        if i >= first_default or base_has_default:
            d = draw(st.sampled_from(["lit", "factory"])) if typ == "list" else "lit"
            if typ == "list":
                d = "factory"
        fields.append((n, typ, d))
    # the class re-declares the last field of its dataclass base with a new default (everything after it then needs one)
    redeclare = bool(base) and base != "hand" and not base.endswith("hand") and draw(st.integers(0, 3)) == 0
    if redeclare:
        fields = [(n, typ, d or ("factory" if typ == "list" else "lit")) for n, typ, d in fields]
    return {
        "redeclare": redeclare,
        "name": name, "frozen": frozen, "eq": eq, "order": order, "unsafe_hash": unsafe_hash,
        "base": base, "base_has_default": base_has_default, "fields": fields,
        "dict": draw(st.booleans()), "weakref": draw(st.booleans()),
        # False | True (both hooks) | "set" (only __setstate__, written to accept every state shape CPython hands out)
        "user_state": draw(st.sampled_from([False, False, True, "set"])),
        "poison_before": draw(st.sampled_from([False, False, False, True])),
        # the plain dataclass is used (an instance copied) before `slotted` is applied to it in function form
        "preuse": draw(st.sampled_from([False, False, True])),
        "base_extra": base_extra,
        "base_shared_name": draw(st.booleans()),
        "base_dict": draw(st.sampled_from([False, False, True])),
        # the class is declared in the body of another class: its qualified name differs from its name
        "nested": draw(st.sampled_from([False, False, True])),
    }


@st.composite
def program(draw):
    n = draw(st.integers(1, 4))
    specs = []
    for i in range(n):
        specs.append(draw(class_spec(i, specs)))
    # one decorator object per (dict, weakref) pair, created once and re-used for every class of the module
    if draw(st.booleans()):
        for s in specs:
            s["shared_decorator"] = True
    return specs


_LIT = {"int": "7", "str": "'dflt'", "list": None}

_SETSTATE = """    def __setstate__(self, st):
        if isinstance(st, tuple):
            d = dict(st[0] or {})
            d.update(st[1] or {})
        else:
            d = dict(st)
        for k, v in d.items():
            object.__setattr__(self, k, v)
        first = %(first)s
        if first is not None:
            v = getattr(self, first)
            mark = 1000 if isinstance(v, int) else '!' if isinstance(v, str) else ['restored']
            object.__setattr__(self, first, v + mark)"""


def _flags(s):
    return f"frozen={s['frozen']}, eq={s['eq']}, order={s['order']}, unsafe_hash={s['unsafe_hash']}"


def emit(specs, slotted: bool) -> str:
    out = ["import dataclasses", "from typelib.py import classes", "CLASSES = []", "ERRORS = []", ""]
    if slotted and any(s.get("shared_decorator") for s in specs):
        for d in (True, False):
            for w in (True, False):
                out.append(f"_deco_{d}_{w} = classes.slotted(dict={d}, weakref={w})")
    for i, s in enumerate(specs):
        deco = f"@classes.slotted(dict={s['dict']}, weakref={s['weakref']})\n" if slotted else ""
        if slotted and s.get("shared_decorator"):
            deco = f"@_deco_{s['dict']}_{s['weakref']}\n"
        base_expr = ""
        if s["base"] == "hand":
            out.append(f"class Hand{i}:\n    __slots__ = ()\n    def hello(self):\n        return 'hi'\n")
            base_expr = f"(Hand{i})"
        elif s["base"]:
            chain = s["base"].split(">")          # root first
            parent = ""
            for lvl, kind in enumerate(chain):
                last = lvl == len(chain) - 1
                cname = ("Base" if s.get("base_shared_name") else f"Base{i}") if last else f"Root{i}"
                if kind == "hand":
                    out.append(f"class {cname}:\n    __slots__ = ()\n    def hello(self):\n        return 'hi'\n")
                    parent = f"({cname})"
                    continue
                bdeco = f"@classes.slotted(dict={bool(s.get('base_dict')) and last}, weakref=False)\n" if (slotted and kind == "slotted") else ""
                if last:
                    bd = " = 1" if s["base_has_default"] else ""
                    body = f"    a: int{bd}\n    b: str{' = ' + repr('bb') if s['base_has_default'] else ''}\n"
                    if s.get("base_extra"):
                        body += f"    c: int{' = 3' if s['base_has_default'] else ''}\n"
                else:
                    body = "    pass\n"
                out.append(f"{bdeco}@dataclasses.dataclass({_flags(s)})\nclass {cname}{parent}:\n{body}")
                parent = f"({cname})"
            base_expr = "(Base)" if s.get("base_shared_name") else f"(Base{i})"
        if s["poison_before"] and slotted:
            # a decoration that is expected to fail: not a dataclass
            out.append(f"try:\n    @classes.slotted(dict={s['dict']}, weakref={s['weakref']})\n    class {s['name']}:\n        x: int = 0\nexcept Exception as e:\n    ERRORS.append(('poison', {i}, type(e).__name__))\n")
        body = []
        if s.get("redeclare"):
            body.append("    b: str = 'redeclared'")
        for n, typ, d in s["fields"]:
            if d is None:
                body.append(f"    {n}: {typ}")
            elif d == "lit":
                body.append(f"    {n}: {typ} = {_LIT[typ]}")
            else:
                body.append(f"    {n}: {typ} = dataclasses.field(default_factory=list)")
        allf = _all_fields(s)
        if s["user_state"] is True:
            body.append("    def __getstate__(self):\n        return {f: getattr(self, f) for f in %r}" % (allf,))
        if s["user_state"]:
            # the hook is observable: it marks the first field of the restored object
            body.append(_SETSTATE % {"first": repr(allf[0]) if allf else "None"})
        if not body:
            body.append("    pass")
        if s.get("preuse"):
            cls_src = f"@dataclasses.dataclass({_flags(s)})\nclass {s['name']}{base_expr}:\n" + "\n".join(body) + "\n"
            cls_src += (f"import copy as _copy\ntry:\n    _copy.copy({s['name']}(*{_args(s, 9)!r}))\n"
                        f"except Exception as e:\n    ERRORS.append(('preuse', {i}, type(e).__name__ + ': ' + str(e)))\n")
            if slotted:
                fn = f"_deco_{s['dict']}_{s['weakref']}" if s.get("shared_decorator") else f"classes.slotted(dict={s['dict']}, weakref={s['weakref']})"
                cls_src += f"{s['name']} = {fn}({s['name']})\n"
        else:
            cls_src = f"{deco}@dataclasses.dataclass({_flags(s)})\nclass {s['name']}{base_expr}:\n" + "\n".join(body) + "\n"
        got = s["name"]
        if s.get("nested"):
            cls_src = f"class Outer{i}:\n" + "\n".join("    " + ln for ln in cls_src.splitlines()) + "\n"
            got = f"Outer{i}.{s['name']}"
        out.append("try:\n" + "\n".join("    " + ln for ln in cls_src.splitlines()) +
                   f"\n    CLASSES.append(({i}, {got}))\nexcept Exception as e:\n    ERRORS.append(('decorate', {i}, type(e).__name__ + ': ' + str(e)))\n")
    return "\n".join(out)


def _base_fields(s):
    if not (s["base"] and s["base"] != "hand"):
        return []
    return ["a", "b", "c"] if s.get("base_extra") else ["a", "b"]


def _all_fields(s):
    return _base_fields(s) + [n for n, _, _ in s["fields"]]


def _args(s, variant):
    """constructor arguments for all fields (base first)."""
    vals = []
    if s["base"] and s["base"] != "hand":
        vals += [10 + variant, f"s{variant}"] + ([30 + variant] if s.get("base_extra") else [])
    for n, typ, d in s["fields"]:
        vals.append({"int": 100 + variant, "str": f"v{variant}", "list": [variant, [variant]]}[typ])
    return vals


def _required(s):
    vals = []
    if s["base"] and s["base"] != "hand" and not s["base_has_default"]:
        vals += [1, "x"] + ([2] if s.get("base_extra") else [])
    for n, typ, d in s["fields"]:
        if d is None and not s["base_has_default"]:
            vals.append({"int": 5, "str": "r", "list": [1]}[typ])
    return vals


def outcome(f):
    try:
        return ("ok", f())
    except Exception as e:  # noqa: BLE001
        return ("exc", type(e).__name__)


def fieldvals(o):
    return snapshot([(f.name, getattr(o, f.name, "<unset>")) for f in dataclasses.fields(o)])


def observe(C, s, bound):
    r = {}
    mk = lambda v: C(*copy.deepcopy(_args(s, v)))  # noqa: E731
    a0 = outcome(lambda: mk(1))
    r["construct"] = a0[0] if a0[0] == "ok" else a0
    if a0[0] != "ok":
        return r
    a, a2, b = mk(1), mk(1), mk(2)
    r["fields"] = fieldvals(a)
    r["eq"] = (a == a2, a == b, a != b)
    r["hash"] = outcome(lambda: hash(a) == hash(a2))
    r["repr"] = repr(a)
    r["order"] = outcome(lambda: (a < b, a <= a2, b > a, a >= b))
    r["copy"] = outcome(lambda: (fieldvals(copy.copy(a)), type(copy.copy(a)) is C))
    r["deepcopy"] = outcome(lambda: (fieldvals(copy.deepcopy(a)), type(copy.deepcopy(a)) is C))
    # protocol >= 2 only: CPython refuses protocol 0/1 for *any* class with __slots__ and no
    # __getstate__ (also native slots=True dataclasses); and only for the class its module binds
    # to that name in both modules (a shadowed class is unpicklable for reasons of the generator).
    for proto in ((2, pickle.HIGHEST_PROTOCOL) if bound else ()):
        r[f"pickle{proto}"] = outcome(lambda: (fieldvals(pickle.loads(pickle.dumps(a, proto))),
                                               type(pickle.loads(pickle.dumps(a, proto))) is C))
    fl = _all_fields(s)
    if fl:
        r["assign"] = outcome(lambda: setattr(mk(1), fl[0], 999))
        r["delete"] = outcome(lambda: delattr(mk(1), fl[0]))
    r["defaults"] = outcome(lambda: fieldvals(C(*_required(s))))
    r["kwargs"] = outcome(lambda: fieldvals(C(**dict(zip(fl, copy.deepcopy(_args(s, 3)))))))
    r["qualname"] = (C.__qualname__, C.__name__)
    r["params"] = (C.__dataclass_params__.frozen, C.__dataclass_params__.eq, C.__dataclass_params__.order)
    r["bases"] = tuple(b.__name__ for b in C.__mro__[1:])
    r["isinstance_base"] = all(isinstance(a, b) for b in C.__mro__[1:])
    r["fieldnames"] = tuple(f.name for f in dataclasses.fields(C))
    r["asdict"] = outcome(lambda: snapshot(dataclasses.asdict(a)))
    r["replace"] = outcome(lambda: fieldvals(dataclasses.replace(a)))
    if s["base"] and "hand" in s["base"]:
        r["hand"] = outcome(lambda: a.hello())
    return r


def check_program(specs, col, tag):
    src_o, src_s = emit(specs, False), emit(specs, True)
    case = {"specs": specs}
    tl.clear_all()
    mo, ms = f"c19_{tag}_orig", f"c19_{tag}_slot"
    mods = {}
    try:
        for name, src in ((mo, src_o), (ms, src_s)):
            m = types.ModuleType(name)
            m.__dict__["__name__"] = name
            sys.modules[name] = m
            try:
                exec(compile(src, name, "exec"), m.__dict__)  # noqa: S102
            except Exception as e:  # generator fault unless in the slot module only
                if name == mo:
                    col.label("invalid-program:" + type(e).__name__)
                    return
                col.ev()
                col.violation("decoration-never-raises", case, f"slot module failed: {type(e).__name__}: {e}")
                return
            mods[name] = m
        o, s_ = mods[mo], mods[ms]
        if o.ERRORS:
            col.label("invalid-program:orig-class-error")
            return
        col.ev()
        hist_len = len(specs) + sum(1 for s in specs if s["poison_before"])
        nontriv = hist_len >= 2 or any(s["base"] or s["frozen"] for s in specs)
        if nontriv:
            col.nt(src_s)
            col.sample({"slot_module_source": src_s[:1500]})
        for s in specs:
            col.label(f"base:{s['base']}")
            col.label(f"dict={s['dict']},weakref={s['weakref']}")
            if s["poison_before"]:
                col.label("poison-decoration")
            if s.get("shared_decorator"):
                col.label("shared-decorator-object")
            col.label(f"user-state-hooks:{s['user_state']},frozen={s['frozen']}")
            if s.get("preuse"):
                col.label("used-before-decoration")
            if s.get("redeclare"):
                col.label("redeclares-base-field")
        for _, i, msg in [e for e in s_.ERRORS if e[0] == "preuse"]:
            # copying an instance of the not yet decorated class worked in the plain module (no ERRORS there)
            col.violation("behaves-like-original", case, f"class #{i} {specs[i]['name']} (before its own decoration, bases already slotted): copy raised {msg}",
                          bucket=f"copy-before-decoration|base={specs[i]['base']}|{msg.split(':')[0]}")
        derr = [e for e in s_.ERRORS if e[0] == "decorate"]
        for _, i, msg in derr:
            col.violation("decoration-never-raises", case, f"class #{i} {specs[i]['name']}: {msg}",
                          bucket=f"base={specs[i]['base']}|{msg.split(':')[0]}")
        co, cs = dict(o.CLASSES), dict(s_.CLASSES)
        for i, s in enumerate(specs):
            if i not in cs or i not in co:
                continue
            Co, Cs = co[i], cs[i]
            col.ev()
            if s.get("nested"):
                bound = getattr(getattr(o, f"Outer{i}", None), s["name"], None) is Co and getattr(getattr(s_, f"Outer{i}", None), s["name"], None) is Cs
                col.label("nested-class")
            else:
                bound = getattr(o, s["name"], None) is Co and getattr(s_, s["name"], None) is Cs
            col.label(f"pickle-compared={bound}")
            ro, rs = observe(Co, s, bound), observe(Cs, s, bound)
            for key in ro:
                if ro[key] != rs.get(key):
                    col.violation("behaves-like-original", case,
                                  f"class #{i} {s['name']} [{key}]: original {ro[key]!r}, slotted {rs.get(key)!r}"[:500],
                                  bucket=key)
            # module / qualname preserved (relative to the class passed in)
            if Cs.__module__ != ms or Cs.__qualname__ != Co.__qualname__:
                col.violation("qualname-module-preserved", case, f"{Cs.__module__}.{Cs.__qualname__}")
            # slots sandwich
            own = [n for n, _, _ in s["fields"]]
            slots = tuple(Cs.__dict__.get("__slots__", ()))
            allowed = set(_all_fields(s)) | ({"__dict__"} if s["dict"] else set()) | ({"__weakref__"} if s["weakref"] else set())
            base_slots = set()
            for b in Cs.__mro__[1:]:
                base_slots |= set(b.__dict__.get("__slots__", ()))
            if "__slots__" not in Cs.__dict__:
                col.violation("slots-sandwich", case, f"class #{i}: no __slots__", bucket="missing")
            else:
                if not set(own) <= set(slots):
                    col.violation("slots-sandwich", case, f"class #{i}: own fields {own} not all in slots {slots}", bucket="own")
                if not set(slots) <= allowed:
                    col.violation("slots-sandwich", case, f"class #{i}: slots {slots} exceed {sorted(allowed)}", bucket="extra")
                if set(slots) & base_slots:
                    col.violation("slots-sandwich", case, f"class #{i}: slots {slots} repeat base slots {sorted(base_slots)}", bucket="dup")
                if len(slots) != len(set(slots)):
                    col.violation("slots-sandwich", case, f"class #{i}: duplicate slots {slots}", bucket="dup2")
            # no per-instance __dict__ unless requested or inherited
            inst = outcome(lambda: Cs(*copy.deepcopy(_args(s, 1))))
            if inst[0] == "ok":
                inherits_dict = any("__dict__" in b.__dict__ for b in Cs.__mro__[1:-1])
                has = hasattr(inst[1], "__dict__")
                if has and not (s["dict"] or inherits_dict):
                    col.violation("no-instance-dict", case, f"class #{i}: instance has __dict__", bucket="has")
                if s["dict"] and not has:
                    col.violation("no-instance-dict", case, f"class #{i}: dict=True but no __dict__", bucket="lacks")
                if s["weakref"] or any("__weakref__" in b.__dict__ for b in Cs.__mro__[1:-1]):
                    import weakref
                    w = outcome(lambda: weakref.ref(inst[1]) is not None)
                    if w != ("ok", True):
                        col.violation("weakref-requested", case, f"class #{i}: weakref.ref failed {w}", bucket="weakref")
    finally:
        sys.modules.pop(mo, None)
        sys.modules.pop(ms, None)


def plan(tier, seed):
    n = 800 if tier == "quick" else 8000
    return [{"seed": seed * 1000 + k, "n": n} for k in range(16)]


def run_shard(shard, col):
    cnt = iter(range(10 ** 9))
    core.drive(program(), lambda p: check_program(p, col, f"{shard['seed']}_{next(cnt)}"),
               n=shard["n"], seed=shard["seed"], col=col)


def replay(clause, case, col):
    specs = case["specs"]
    for s in specs:
        s["fields"] = [tuple(f) for f in s["fields"]]
    check_program(specs, col, "replay")
