"""C04 - scalar values survive their text and numeric wire forms exactly.

Per scalar type S and value v (full ranges, boundary-biased), each run cold and again after the
caches were warmed with an equal-but-differently-represented value:
  1. text = str(v) / isoformat() / str(member.value) / (timedelta: the emitted ISO text);
     string-marshalled types: marshal(v, t=S) == text;
  2. unmarshal(S, carrier(text)) for the six carriers (five kinds; memoryview also as a window into a larger buffer) -> deep_same(result, v);
  3. emitted temporal text read by an independent reader (date/time/datetime.fromisoformat; a
     harness grammar for ISO-8601 durations) means v, same offset;
  4. numbers -> temporal types = seconds since the Unix epoch in UTC (seconds of duration);
  5. temporals -> float/int = the inverse reading; temporals -> str/bytes = the ISO text.
"""

from __future__ import annotations

import datetime
import decimal
import enum
import fractions
import pathlib
import re
import uuid

from harness import core, inputs, tl
from harness import universe as U
from harness.core import st
from harness.oracles import deep_same, diff_bucket, exc_bucket, same_up_to_duration_float, snapshot, why_different

ID = "C04"
RULE = ("scalar (type, value) pairs over the full ranges x 5 text carriers x {cold, warmed}; plus numeric->temporal and "
        "temporal->numeric/str/bytes conversions; non-trivial = boundary class (multi-digit numerals, exponent >= 20, "
        ">= 7 days, negative duration, non-UTC offset, microseconds != 0, year < 1000, look-alike path/enum text) or "
        "the warmed-cache variant; distinct by (type, value, carrier/clause, warm?)")
ASSUMPTIONS = ["textual *numeric* input to temporal types is not judged", "seconds-granular UTC offsets are outside the domain",
               "float epoch seconds are compared with a 1 microsecond tolerance (two correctly rounded paths)"]
TECHNIQUE = "property-based testing: per-type round-trip of canonical text in six carriers (five kinds; memoryview also as a window into a larger buffer), differential against independent readers (fromisoformat, own ISO-8601 duration grammar) and against epoch arithmetic, with cache-warming metamorphic variant"
LEVEL_TEXT = ("Exploration over the full value ranges of 14 scalar types with boundary bias: tens of thousands of values per run, "
              "each checked through six carriers (five kinds; memoryview also as a window into a larger buffer), an independent reader and the numeric conversions, cold and cache-warmed.")
LEVEL_NOTE = "trusts CPython's fromisoformat and datetime arithmetic as the independent readers"

EPOCH = datetime.datetime(1970, 1, 1, tzinfo=datetime.timezone.utc)
UTC = datetime.timezone.utc


class EPlain(enum.Enum):
    # no member whose value is the *text* of another member's value (1 vs "1" would make the
    # canonical text of A ambiguous); "1" as a str value is covered by EStr
    A = 1
    B = "b"
    C = "null"
    D = 2.5
    E = "x y"
    F = "[1]"
    G = "true"
    H = "2020-01-01"


class EInt(enum.IntEnum):
    Z = 0
    O = 1
    N = -7
    BIG = 10 ** 12


class EStr(str, enum.Enum):
    A = "a"
    ONE = "1"
    NUL = "null"
    T = "true"
    L = "[1]"
    EMPTY = ""


TYPES = {
    "int": int, "float": float, "Decimal": decimal.Decimal, "Fraction": fractions.Fraction, "UUID": uuid.UUID,
    "PurePosixPath": pathlib.PurePosixPath, "PureWindowsPath": pathlib.PureWindowsPath, "Path": pathlib.Path,
    "date": datetime.date, "datetime": datetime.datetime, "time": datetime.time, "timedelta": datetime.timedelta,
    "EPlain": EPlain, "EInt": EInt, "EStr": EStr,
}
STRING_MARSHALLED = {"Decimal", "Fraction", "UUID", "PurePosixPath", "PureWindowsPath", "Path", "date", "datetime", "time"}


def values_for(t):
    if t in ("EPlain", "EInt", "EStr"):
        return st.sampled_from(list(TYPES[t]))
    return U.scalar_values(t)


@st.composite
def scalar_case(draw):
    t = draw(st.sampled_from(sorted(TYPES)))
    return t, draw(values_for(t))


# ---- independent ISO-8601 duration reader ---------------------------------------------------------

_DUR = re.compile(
    r"^(?P<sign>[+-])?P(?:(?P<y>[+-]?\d+)Y)?(?:(?P<mo>[+-]?\d+)M)?(?:(?P<w>[+-]?\d+)W)?(?:(?P<d>[+-]?\d+)D)?"
    r"(?:T(?:(?P<h>[+-]?\d+)H)?(?:(?P<mi>[+-]?\d+)M)?(?:(?P<s>[+-]?\d+)(?:[.,](?P<f>\d{1,9}))?S)?)?$")


def read_duration(text: str) -> datetime.timedelta:
    m = _DUR.match(text)
    if not m:
        raise ValueError(f"not an ISO-8601 duration: {text!r}")
    g = m.groupdict()
    if int(g["y"] or 0) or int(g["mo"] or 0):
        raise ValueError("calendar components")
    secs = int(g["s"] or 0)
    frac = g["f"] or ""
    if len(frac) > 6 and set(frac[6:]) != {"0"}:
        raise ValueError("sub-microsecond digits")
    us = int((frac + "000000")[:6]) if frac else 0
    if (g["s"] or "").startswith("-"):
        us = -us
    td = datetime.timedelta(weeks=int(g["w"] or 0), days=int(g["d"] or 0), hours=int(g["h"] or 0),
                            minutes=int(g["mi"] or 0), seconds=secs, microseconds=us)
    return -td if g["sign"] == "-" else td


def canonical_text(t, v):
    if t in ("date", "datetime", "time"):
        return v.isoformat()
    if t in ("EPlain", "EInt", "EStr"):
        return str(v.value)
    if t == "float":
        return repr(v)
    return str(v)


def boundary(t, v, text) -> bool:
    if t == "int":
        return abs(v) >= 10
    if t == "float":
        return "e" in text or v != v or abs(v) >= 1e16 or (v != 0 and abs(v) < 1e-4) or v == 0
    if t == "Decimal":
        return abs(v.as_tuple().exponent) >= 20 or v.is_zero() or "E" in text
    if t == "Fraction":
        return v.denominator != 1
    if t == "UUID":
        return True
    if t in ("PurePosixPath", "PureWindowsPath", "Path"):
        return text in U.LOOKALIKE_STRINGS or "1" in text or "null" in text
    if t == "date":
        return v.year < 1000 or v.year > 9000
    if t == "datetime":
        return v.utcoffset() != datetime.timedelta(0) or v.microsecond != 0 or v.year < 1000
    if t == "time":
        return v.utcoffset() != datetime.timedelta(0) or v.microsecond != 0
    if t == "timedelta":
        return abs(v) >= datetime.timedelta(days=7) or v < datetime.timedelta(0) or v.microseconds != 0
    return text in U.LOOKALIKE_STRINGS


def warm_with(t, v, T):
    """Touch the caches with an equal-but-differently-represented value first - and with inputs the routine rejects: a
    handled failure, and the text of a sibling value, are part of a warm history like any other call."""
    for junk in ("zzz-not-valid", "2", "", b"\xff\xfe", None, [1], 2):
        tl.call(tl.unmarshal, T, junk)
    if isinstance(v, enum.Enum):
        for sib in type(v):
            if sib is not v:
                tl.call(tl.unmarshal, T, str(sib.value))
                tl.call(tl.unmarshal, T, sib.value)
        return True
    w = None
    if t == "datetime":
        try:
            w = v.astimezone(datetime.timezone(datetime.timedelta(minutes=(-90 if v.utcoffset() != datetime.timedelta(minutes=-90) else 75))))
        except (OverflowError, ValueError):
            w = None
    elif t == "time":
        off = v.utcoffset() or datetime.timedelta(0)
        shift = datetime.timedelta(minutes=60)
        # the same instant on the clock face at another offset
        dt = datetime.datetime.combine(datetime.date(2000, 1, 2), v.replace(tzinfo=None)) + shift
        w = dt.time().replace(tzinfo=datetime.timezone(off + shift)) if abs(off + shift) < datetime.timedelta(hours=24) else None
    elif t == "int":
        w = True if v == 1 else False if v == 0 else (float(v) if abs(v) < 2 ** 53 else None)
    elif t == "float":
        w = int(v) if v == int(v) and abs(v) < 2 ** 53 else None
    elif t == "Decimal":
        w = v.normalize() if not v.is_zero() else None
    elif t == "timedelta":
        import pendulum
        if datetime.timedelta(0) <= v < datetime.timedelta(days=10000):
            w = pendulum.duration(days=v.days, seconds=v.seconds, microseconds=v.microseconds)
    if t in ("datetime", "time"):
        # also touch the same wall clock at the offset 24 h away (an unequal value whose offset has the
        # same `.seconds`): results must not depend on it
        off = v.utcoffset()
        for delta in (datetime.timedelta(hours=24), datetime.timedelta(hours=-24)):
            if abs(off + delta) < datetime.timedelta(hours=24):
                other = v.replace(tzinfo=datetime.timezone(off + delta))
                tl.call(tl.unmarshal, T, other.isoformat())
                tl.call(tl.marshal, other, t=T)
                w = w if w is not None else other
    if w is None:
        return False
    tl.call(tl.marshal, w, t=T)
    tl.call(tl.unmarshal, T, canonical_text(t, w) if t not in ("int", "float") else str(w))
    tl.call(tl.unmarshal, T, (canonical_text(t, w) if t not in ("int", "float") else str(w)).encode())
    tl.call(tl.unmarshal, str, w)
    tl.call(tl.unmarshal, float, w) if t in ("datetime", "time", "timedelta", "date") else None
    return True


_WRAPPED = {}


def wrapped_twice(t, T):
    import typing
    if t not in _WRAPPED:
        a1 = typing.TypeAliasType(f"A1_{t}", T)
        n1 = typing.NewType(f"N1_{t}", T)
        _WRAPPED[t] = [("alias(alias)", typing.TypeAliasType(f"A2_{t}", a1)), ("NewType(NewType)", typing.NewType(f"N2_{t}", n1)),
                       ("alias(NewType)", typing.TypeAliasType(f"AN_{t}", n1))]
    return _WRAPPED[t]


def check_scalar(t, v, col, warm=False):
    T = TYPES[t]
    tl.clear_all()
    if warm and not warm_with(t, v, T):
        return
    vsrc = U.to_src(v) if not isinstance(v, enum.Enum) else f"{t}.{v.name}"
    text = canonical_text(t, v)
    is_b = boundary(t, v, text) or warm
    base = {"type": t, "value": vsrc, "warm": warm}
    col.label(f"type:{t}")
    col.label("warm" if warm else "cold")

    # 1. marshalled text
    km, m = tl.call(tl.marshal, v, t=T)
    col.ev()
    if km == "exc":
        col.violation("marshal-succeeds", base, f"marshal({vsrc}, t={t}) raised {tl.exc_name(m)}: {m}", bucket=f"{t}|{exc_bucket(m)}")
        return
    if t in STRING_MARSHALLED and (type(m) is not str or m != text):
        col.violation("marshal-is-canonical-text", base, f"marshal({vsrc}, t={t}) = {m!r}, canonical text {text!r}", bucket=t)
    if isinstance(v, enum.Enum) and (type(m) is not type(v.value) or m != v.value):
        # the wire form of an enum member is its value - the plain value, also when the enum mixes in str / int
        col.violation("marshal-is-member-value", base, f"marshal({vsrc}, t={t}) = {m!r} ({type(m).__name__}), the member's value is {v.value!r}", bucket=t)
    # the library's own wire form comes back as the value, too (a duration's own text is the text judged below)
    ko, ro = tl.call(tl.unmarshal, T, m) if t != "timedelta" else ("ok", v)
    col.ev()
    if ko == "exc" or not deep_same(ro, v):
        c_ = dict(base, wire=repr(m))
        col.violation("own-wire-round-trip", c_, f"unmarshal({t}, marshal({vsrc})) with wire {m!r:.80}: " + (f"raised {tl.exc_name(ro)}" if ko == "exc" else why_different(ro, v)), bucket=t)
    if t == "timedelta":
        if type(m) is not str:
            col.violation("marshal-is-canonical-text", base, f"marshal(timedelta) = {m!r}", bucket=t)
            return
        text = m
    # 3. independent reader
    if t in ("date", "datetime", "time", "timedelta"):
        col.ev()
        try:
            if t == "timedelta":
                r = read_duration(text)
                ok = r == v
            else:
                r = T.fromisoformat(text)
                ok = r == v and (t == "date" or r.utcoffset() == v.utcoffset())
        except Exception as e:  # noqa: BLE001
            ok, r = False, e
        if not ok:
            col.violation("independent-reader", base, f"{t} text {text!r} reads as {r!r}, value {vsrc}", bucket=t)
    # 2. six carriers (five kinds; memoryview also as a window into a larger buffer)
    for c in inputs.CARRIERS:
        col.ev()
        if is_b:
            col.nt(f"{t}|{vsrc}|{c}|{warm}")
        k, r = tl.call(tl.unmarshal, T, inputs.carry(text, c))
        case = dict(base, text=text, carrier=c)
        if k == "exc":
            col.violation("text-round-trip", case, f"unmarshal({t}, {c} of {text!r}) raised {tl.exc_name(r)}: {r}",
                          bucket=f"{t}|{exc_bucket(r)}")
        elif not deep_same(r, v):
            if same_up_to_duration_float(r, v):
                case["diag"] = "duration-float-precision"
            col.violation("text-round-trip", case, f"unmarshal({t}, {c} of {text!r}) -> {why_different(r, v)}",
                          bucket=f"{t}|{diff_bucket(r, v)}")
    # the same text through wrappers two layers deep (alias of an alias, NewType of a NewType, alias of a NewType): the routine
    # is chosen by what the chain resolves to, and must be *built* for that, too
    if not warm:
        for wname, Tw in wrapped_twice(t, T):
            col.ev()
            col.label("wrapped-twice:" + wname)
            k, r = tl.call(tl.unmarshal, Tw, text)
            if k == "exc" or not deep_same(r, v):
                c_ = dict(base, text=text, wrap=wname)
                if k == "ok" and same_up_to_duration_float(r, v):
                    c_["diag"] = "duration-float-precision"
                col.violation("text-round-trip", c_, f"unmarshal({wname} over {t}, {text!r}) " + (f"raised {tl.exc_name(r)}: {r}" if k == "exc" else "-> " + why_different(r, v)),
                              bucket=f"{t}|wrapped|{wname}")
    if is_b and len(vsrc) < 160:
        col.sample({"type": t, "v": vsrc, "text": text, "warm": warm})
    # 5. temporal -> numeric / str / bytes
    if t in ("date", "datetime", "time", "timedelta"):
        col.ev(3)
        ks, rs = tl.call(tl.unmarshal, str, v)
        if ks == "exc" or type(rs) is not str or rs != text:
            col.violation("temporal-to-str", base, f"unmarshal(str, {vsrc}) = {rs!r}, ISO text {text!r}", bucket=t)
        kb, rb = tl.call(tl.unmarshal, bytes, v)
        if kb == "exc" or type(rb) is not bytes or rb != text.encode():
            col.violation("temporal-to-bytes", base, f"unmarshal(bytes, {vsrc}) = {rb!r}", bucket=t)
        if t != "time":
            if t == "timedelta":
                want = v.total_seconds()
                exact_int = v.microseconds == 0
                wint = v.days * 86400 + v.seconds
            elif t == "date":
                want = (datetime.datetime(v.year, v.month, v.day, tzinfo=UTC) - EPOCH).total_seconds()
                exact_int, wint = True, int(want)
            else:
                want = (v - EPOCH).total_seconds()
                exact_int = v.microsecond == 0
                wint = (v - EPOCH).days * 86400 + (v - EPOCH).seconds
            kf, rf = tl.call(tl.unmarshal, float, v)
            tol = max(1e-6, abs(want) * 2.0 ** -52)
            if kf == "exc" or type(rf) is not float or abs(rf - want) > tol:
                col.violation("temporal-to-float", base, f"unmarshal(float, {vsrc}) = {rf!r}, expected {want!r}", bucket=t)
            if exact_int and abs(wint) < 2 ** 53:
                ki, ri = tl.call(tl.unmarshal, int, v)
                if ki == "exc" or type(ri) is not int or ri != wint:
                    col.violation("temporal-to-int", base, f"unmarshal(int, {vsrc}) = {ri!r}, expected {wint!r}", bucket=t)
        elif v.utcoffset() == datetime.timedelta(0):
            kf, rf = tl.call(tl.unmarshal, float, v)
            if kf == "ok":
                kt, rt = tl.call(tl.unmarshal, datetime.time, rf)
                if kt == "exc" or abs(_tsec(rt) - _tsec(v)) > 2e-6 or rt.utcoffset() != datetime.timedelta(0):
                    col.violation("time-number-round-trip", base, f"unmarshal(time, unmarshal(float, {vsrc})) = {rt!r}", bucket=t)
            else:
                col.violation("time-number-round-trip", base, f"unmarshal(float, {vsrc}) raised {tl.exc_name(rf)}", bucket=t)


def _tsec(t):
    return t.hour * 3600 + t.minute * 60 + t.second + t.microsecond / 1e6


# ---- 4. numbers -> temporal ---------------------------------------------------------------------

LO, HI = -62135596800, 253402300799


def check_numeric(t, n, col):
    tl.clear_all()
    T = TYPES[t]
    col.ev()
    col.label(f"numeric->{t}:{type(n).__name__}")
    nsrc = repr(n)
    col.nt(f"num|{t}|{nsrc}")
    case = {"type": t, "n": nsrc}
    k, r = tl.call(tl.unmarshal, T, n)
    if t == "timedelta":
        want = datetime.timedelta(seconds=n)
    else:
        want = EPOCH + datetime.timedelta(seconds=n)
    if k == "exc":
        col.violation("numeric-to-temporal", case, f"unmarshal({t}, {nsrc}) raised {tl.exc_name(r)}: {r}", bucket=f"{t}|{exc_bucket(r)}")
        return
    tol = datetime.timedelta(microseconds=1) if isinstance(n, float) else datetime.timedelta(0)
    if isinstance(n, float):
        tol = max(tol, datetime.timedelta(seconds=abs(n) * 2.0 ** -51))
    ok = False
    if t == "timedelta":
        ok = type(r) is datetime.timedelta and abs(r - want) <= tol
    elif t == "datetime":
        ok = type(r) is datetime.datetime and r.utcoffset() == datetime.timedelta(0) and abs(r - want) <= tol
    elif t == "date":
        near = {want.date()}
        if isinstance(n, float):  # a float instant within its own rounding of a UTC midnight may land on either side
            for w in (lambda: want - tol, lambda: want + tol):
                try:
                    near.add(w().date())
                except OverflowError:
                    pass
        ok = type(r) is datetime.date and r in near
    elif t == "time":
        w = want.timetz()
        ok = type(r) is datetime.time and r.utcoffset() == datetime.timedelta(0) and (
            abs(_tsec(r) - _tsec(w)) <= tol.total_seconds() + 1e-9 or abs(abs(_tsec(r) - _tsec(w)) - 86400) <= tol.total_seconds() + 1e-9)
    if not ok:
        col.violation("numeric-to-temporal", case, f"unmarshal({t}, {nsrc}) = {r!r}, expected {want!r}", bucket=t)


@st.composite
def numeric_case(draw):
    t = draw(st.sampled_from(["datetime", "date", "time", "timedelta"]))
    if t == "timedelta":
        n = draw(st.one_of(st.integers(-86399999913600, 86399999913600), st.floats(-8.6e13, 8.6e13, allow_nan=False),
                           st.sampled_from([0, 1, -1, 90.5, 0.000001, 59.999999, 604800, -0.5, 1e-6, 3661, 86400.25])))
    else:
        n = draw(st.one_of(st.integers(LO, HI), st.floats(LO, HI, allow_nan=False),
                           st.sampled_from([0, 1, -1, 0.5, 1.000001, 86399, 86400, -86400.5, 1e9, 1.7e9, 253402300799, -62135596800, 0.999999, 1234567890.123456])))
    return t, n


# ---- runner interface ------------------------------------------------------------------------------

def plan(tier, seed):
    n = 1500 if tier == "quick" else 12000
    shards = [{"kind": "scalar", "seed": seed * 1000 + k, "n": n} for k in range(13)]
    shards += [{"kind": "numeric", "seed": seed * 1000 + 50 + k, "n": n * 4} for k in range(3)]
    return shards


def run_shard(shard, col):
    if shard["kind"] == "numeric":
        core.drive(numeric_case(), lambda c: check_numeric(*c, col), n=shard["n"], seed=shard["seed"], col=col)
        return

    def one(c):
        t, v = c
        check_scalar(t, v, col, warm=False)
        check_scalar(t, v, col, warm=True)

    core.drive(scalar_case(), one, n=shard["n"], seed=shard["seed"], col=col)


_NS = {"datetime": datetime, "decimal": decimal, "fractions": fractions, "uuid": uuid, "pathlib": pathlib, "re": re,
       "EPlain": EPlain, "EInt": EInt, "EStr": EStr}


def replay(clause, case, col):
    if "n" in case:
        check_numeric(case["type"], eval(case["n"]), col)  # noqa: S307
        return
    v = eval(case["value"], dict(_NS))  # noqa: S307
    check_scalar(case["type"], v, col, warm=case.get("warm", False))


def cg_plan(seed):
    """coverage-guided shards of the thorough tier (harness/cg.py): same strategies and check functions, choices from libFuzzer"""
    return [{"kind": "scalar" if k < 3 else "numeric", "seed": seed * 1000 + 900 + k, "n": 0, "cg": {"runs": 100000}} for k in range(4)]
