"""C11 - aliases, NewTypes, qualifiers and string references are transparent.

For a base type T, a wrapper chain W (length <= 3 over NewType, TypeAliasType(value), TypeAliasType
('string'), Final, ClassVar) and a position P (root, list argument, mapping value, tuple member,
union member, class field), the routines for P(W(T)) must behave exactly like those for P(T) on
identical inputs (valid values, harness-built wire forms, corrupted wire forms, junk): same marshal /
unmarshal / codec encode / decode results or the same exception class. At the root, a named wrapper is
additionally referred to by its qualified string, by ForwardRef(name, module=...) and by its bare
name from a function of the defining module called through 1-5 extra frames.

The two programs are materialised one after the other under the *same* module names, so snapshots
(which contain class names) are directly comparable. Caches are cleared between the two builds.
"""

from __future__ import annotations

import itertools
import re
import typing

from harness import core, inputs, progs, tl
from harness import universe as U
from harness.core import st
from harness.oracles import snapshot

ID = "C11"
RULE = ("11 base types x all wrapper chains of length <= 2 x 8 positions + 6 'next to the bare type' positions (wrappers declared "
        "in the defining or in another module; chains <= 2 for named bases, 1 otherwise) (exhaustive), chains of length 3 and random "
        "bases of U sampled; 9 inputs per program; root-position string / ForwardRef / bare-name-from-frame-depth forms; "
        "non-trivial = chain length >= 2, non-root position, or a non-object reference form; distinct by (base, chain, "
        "position, reference form)")
ASSUMPTIONS = ["Final only at the root and on class fields, ClassVar only at the root, NewType never directly over Optional/Union/Literal/TypedDict",
               "a partially qualified reference is not a resolvable reference and is not generated"]
TECHNIQUE = "exhaustive enumeration of wrapper chains x positions + Hypothesis sampling; differential (metamorphic) oracle: routines for W(T) vs T on identical inputs, compared by class-exact snapshots"
LEVEL_TEXT = ("All wrapper chains up to length 2 over 11 base types in 8 positions are enumerated on every run, longer chains and "
              "random bases are sampled; each wrapped program is compared with the unwrapped one on valid, wire-form, corrupted "
              "and junk inputs through marshal, unmarshal and codec.")
LEVEL_NOTE = "trusts that materialising both programs under identical module names makes class-exact snapshots comparable"
EXHAUSTIVE_NOTE = "chains of length <= 2 x 11 bases x 8 positions, plus the 6 next-to-bare positions, complete on every run"

S = U.S
WRAPPERS = ["newtype", "alias", "stralias", "final", "classvar"]
POSITIONS = ["root", "list", "dictval", "tuple", "union", "field", "sigfield", "fieldd"]
# the wrapped type *next to the bare type* (which the walk reaches first), the wrappers declared in the defining
# module or in another module ("...x"): tuple[T, W], tuple[T, Union[W, None]], fields `a: T; x: W`
POSITIONS2 = ["tuple2", "tuple2x", "union2", "union2x", "field2", "field2x"]


def bases():
    rec = {"k": "class", "name": "R", "mod": 0, "flavour": "dataclass", "future": False,
           "fields": [{"n": "v", "t": S("int")}, {"n": "nxt", "t": {"k": "optional", "sp": "Optional", "a": [{"k": "ref", "name": "R", "mod": 0}]}, "default": True}]}
    dc = {"k": "class", "name": "D", "mod": 0, "flavour": "dataclass", "future": False,
          "fields": [{"n": "a", "t": S("int")}, {"n": "b", "t": S("str"), "default": True}]}
    en = {"k": "enum", "name": "E", "mod": 0, "flavour": "str", "members": [["M0", "a"], ["M1", "1"]]}
    return {
        "int": S("int"), "str": S("str"), "Decimal": S("Decimal"), "datetime": S("datetime"),
        "list[int]": {"k": "list", "sp": "list", "a": [S("int")]},
        "Optional[int]": {"k": "optional", "sp": "Optional", "a": [S("int")]},
        "dataclass": dc, "recursive": rec,
        "dict[str, Decimal]": {"k": "dict", "sp": "dict", "a": [S("str"), S("Decimal")]},
        "enum": en,
        "literal": {"k": "literal", "values": [1, "a", None]},
        # written with the bare name: a string-valued alias of it reads "Literal['r', 'w']"
        "literal-bare": {"k": "literal", "values": ["r", "w"], "sp": "bare"},
    }


def valid_chain(chain, base, position):
    """chain: inner -> outer"""
    if position == "fieldd" and U.default_src(base) is None:
        return False   # no immutable canonical default for this base type
    for i, w in enumerate(chain):
        outer = i == len(chain) - 1
        if w == "final" and not (outer and position in ("root", "field", "fieldd", "field2", "field2x")):
            return False
        if w == "classvar" and not (outer and position == "root"):
            return False
        if w == "newtype":
            inner = base if i == 0 else None
            below = chain[i - 1] if i else None
            if below in ("final", "classvar"):
                return False
            k = U.strip(base)["k"]
            if k in ("optional", "union", "literal") or (k == "class" and U.strip(base)["flavour"].startswith("typeddict")):
                return False
        if w in ("alias", "stralias") and i and chain[i - 1] in ("final", "classvar"):
            return False
    return True


def apply_chain(base, chain, mod=0):
    spec = base
    for i, w in enumerate(chain):
        if w in ("final", "classvar"):
            spec = {"k": w, "a": [spec]}
        else:
            spec = {"k": w, "name": f"W{i}_{w}", "mod": mod, "a": [spec]}
    return spec


def again(base):
    """a second occurrence of `base`: named classes are referred to, everything else is written out again"""
    b = U.strip(base)
    if b["k"] == "class":
        return {"k": "ref", "name": b["name"], "mod": b["mod"]}
    return base


def embed(spec, position, base=None):
    if position in POSITIONS2:
        first = base
        if position.startswith("tuple2"):
            return {"k": "tuple", "sp": "tuple", "a": [first, spec]}
        if position.startswith("union2"):
            return {"k": "tuple", "sp": "tuple", "a": [first, {"k": "optional", "sp": "Union", "a": [spec]}]}
        final = spec["k"] == "final"
        return {"k": "class", "name": "Holder", "mod": 0, "flavour": "dataclass", "future": False,
                "fields": [{"n": "a", "t": first},
                           {"n": "x", "t": spec["a"][0] if final else spec, **({"final": True} if final else {})}]}
    if position == "root":
        return spec
    if position == "list":
        return {"k": "list", "sp": "list", "a": [spec]}
    if position == "dictval":
        return {"k": "dict", "sp": "dict", "a": [S("str"), spec]}
    if position == "tuple":
        return {"k": "tuple", "sp": "tuple", "a": [S("int"), spec]}
    if position == "union":
        return {"k": "optional", "sp": "Union", "a": [spec]}
    if position == "sigfield":
        # a class whose fields are only declared by the (text) annotations of its constructor's signature
        return {"k": "class", "name": "Holder", "mod": 0, "flavour": "sigonly", "future": False,
                "fields": [{"n": "x", "t": spec}, {"n": "y", "t": S("int"), "default": True}]}
    if position == "fieldd":
        # a field with a default value (the default is then also an attribute of the class), after a field without
        final = spec["k"] == "final"
        inner = spec["a"][0] if final else spec
        return {"k": "class", "name": "Holder", "mod": 0, "flavour": "dataclass", "future": False,
                "fields": [{"n": "y", "t": S("int")}, {"n": "x", "t": inner, "default": True, **({"final": True} if final else {})}]}
    if position == "field":
        final = spec["k"] == "final"
        return {"k": "class", "name": "Holder", "mod": 0, "flavour": "dataclass", "future": False,
                "fields": [{"n": "x", "t": spec["a"][0] if final else spec, **({"final": True} if final else {})}, {"n": "y", "t": S("int"), "default": True}]}
    raise ValueError(position)


FRAME_SRC = '''
def call0(f, *a):
    return f(*a)
def call1(f, *a):
    return call0(f, *a)
def call2(f, *a):
    return call1(f, *a)
def call5(f, *a):
    def g(*b):
        def h(*c):
            return call2(f, *c)
        return h(*b)
    return g(*a)
'''


OPS_SRC = '''
def op_marshal(tl, T, v):
    return tl.marshal(v, t=T)
def op_unmarshal(tl, T, x):
    return tl.unmarshal(T, x)
def op_encode(tl, T, v):
    return tl.codec(T).encode(v)
def op_decode(tl, T, b):
    return tl.codec(T).decode(b)
def deeper(k, f, *a):
    if k:
        return deeper(k - 1, f, *a)
    return f(*a)
'''


def outcomes(spec, tag, value_srcs, input_srcs, ref_form="object", bytes_in=None):
    """materialise `spec` under module tag `tag`, run every operation, return comparable outcomes.

    The typelib entry points are called *from a function of the issuing module* (a neutral module, the
    defining module for bare names, or a module that binds every name of the program to a decoy), so
    that the library's notion of 'the caller' is that module."""
    import types as _types

    mat = U.materialise(spec, tag=tag)
    out = {}
    enc = {}
    with mat:
        tl.clear_all()
        T = mat.root
        clash = ref_form.endswith("@clash")
        ref_form = ref_form.replace("@clash", "")
        depth = 0
        issuer = _types.ModuleType(f"c11_issuer_{tag}")
        import sys as _sys
        _sys.modules[issuer.__name__] = issuer
        if clash:
            exec("import dataclasses\n@dataclasses.dataclass\nclass Decoy:\n    zz: str = 'decoy'\n", issuer.__dict__)  # noqa: S102
            for (_m, nm) in list(mat.classes):
                issuer.__dict__[nm] = issuer.__dict__["Decoy"]
            for _i in mat.modules:
                issuer.__dict__[f"M{_i}"] = issuer.__dict__["Decoy"]
        if ref_form != "object":
            named = spec
            mod = mat.modules[named["mod"]] if "mod" in named else None
            if ref_form == "qualified-string":
                T = f"{mod.__name__}.{named['name']}"
            elif ref_form == "qualified-string-twice":
                # one reference which names two module-qualified types: the union of the wrapper with itself is the wrapper
                T = f"{mod.__name__}.{named['name']} | {mod.__name__}.{named['name']}"
            elif ref_form == "nested-qualified-string":
                # the wrapper as an attribute of a class of its module (`class Order: Id = NewType(...)`): "mod.Order.Id"
                mod.__dict__["Ns"] = type("Ns", (), {"__module__": mod.__name__, named["name"]: mod.__dict__[named["name"]]})
                T = f"{mod.__name__}.Ns.{named['name']}"
            elif ref_form == "nested-forwardref":
                mod.__dict__["Ns"] = type("Ns", (), {"__module__": mod.__name__, named["name"]: mod.__dict__[named["name"]]})
                T = typing.ForwardRef(f"Ns.{named['name']}", module=mod.__name__)
            elif ref_form == "forwardref":
                T = typing.ForwardRef(named["name"], module=mod.__name__)
            elif ref_form == "arg-forwardref":
                # the named wrapper given as a ForwardRef *object* among the arguments of the enclosing generic
                pos = spec["k"]
                inner = {"list": lambda: spec["a"][0], "dict": lambda: spec["a"][1], "tuple": lambda: spec["a"][1], "optional": lambda: spec["a"][0]}[pos]()
                fr = typing.ForwardRef(inner["name"], module=mat.modules[inner["mod"]].__name__)
                T = {"list": lambda: typing.List[fr], "dict": lambda: typing.Dict[str, fr], "tuple": lambda: typing.Tuple[int, fr],
                     "optional": lambda: typing.Optional[fr]}[pos]()
            elif ref_form.startswith("bare"):
                issuer = mod
                T = named["name"]
                depth = int(ref_form.split(":")[1])
            elif ref_form.startswith("qualifier-string"):
                # the text of a qualified annotation, `ClassVar[Name]` / `Final[Name]`, issued from the defining module
                issuer = mod
                q = ref_form.split(":")[1]
                mod.__dict__.setdefault(q, getattr(typing, q))
                T = f"{q}[{named['name']}]"
        # the issuing functions belong to a module with a file, like any user's module: the library finds "the caller's
        # module" through inspect.getmodule(frame), which goes by file name
        issuer.__dict__.setdefault("__file__", f"/nonexistent/{issuer.__name__}.py")
        exec(compile(OPS_SRC, issuer.__dict__["__file__"], "exec"), issuer.__dict__)  # noqa: S102
        ops = issuer.__dict__
        run = lambda name, *a: tl.call(ops["deeper"], depth, ops[name], tl, *a)  # noqa: E731
        for i, src in enumerate(value_srcs):
            try:
                v = mat.eval(src)
            except Exception as e:
                out[f"marshal#{i}"] = ("harness", type(e).__name__)
                continue
            out[f"marshal#{i}"] = _o(run("op_marshal", T, v))
            r = run("op_encode", T, v)
            out[f"encode#{i}"] = _o(r)
            if r[0] == "ok":
                enc[i] = r[1]
        for i, src in enumerate(input_srcs):
            try:
                x = inputs.eval_src(src, mat)
            except Exception as e:
                out[f"unmarshal#{i}"] = ("harness", type(e).__name__)
                continue
            out[f"unmarshal#{i}"] = _o(run("op_unmarshal", T, x))
        for i, b in (bytes_in if bytes_in is not None else enc).items():
            out[f"decode#{i}"] = _o(run("op_decode", T, b))
        # sequel, caches and evaluated references still warm: *new* annotations built around the same root
        # (their type graphs have not been built yet) must be just as transparent
        if ref_form == "object" and not isinstance(T, str):
            for sname, T2, wrapv in (("list", list[T], lambda z: [z]), ("dict", dict[str, T], lambda z: {"k": z}),
                                     ("tuple", tuple[int, T], lambda z: (1, z))):
                for i, src in enumerate(value_srcs[:2]):
                    try:
                        v = mat.eval(src)
                    except Exception:
                        continue
                    out[f"sequel-{sname}-marshal#{i}"] = _o(run("op_marshal", T2, wrapv(v)))
                for i, src in enumerate(input_srcs[:5]):
                    try:
                        x = inputs.eval_src(src, mat)
                    except Exception:
                        continue
                    out[f"sequel-{sname}-unmarshal#{i}"] = _o(run("op_unmarshal", T2, list(wrapv(x)) if sname == "tuple" else wrapv(x)))
        _sys.modules.pop(f"c11_issuer_{tag}", None)
    return out, enc


def two_programs(base, chain, position):
    if position in POSITIONS2:
        other = again(base)
        return (embed(other, position, base=base),
                embed(apply_chain(other, chain, mod=1 if position.endswith("x") else 0), position, base=base))
    return embed(base, position), embed(apply_chain(base, chain), position)


_ADDR = re.compile(r" at 0x[0-9a-f]+")


def _o(r):
    # object addresses (the text of an iterator turned into a str) differ between two runs of the same program
    return ("exc", tl.exc_name(r[1])) if r[0] == "exc" else ("ok", _ADDR.sub(" at 0x?", repr(snapshot(r[1]))))


def gen_inputs(spec_t, tag, data):
    """valid value sources and arbitrary input sources for the unwrapped program"""
    mat = U.materialise(spec_t, tag=tag)
    with mat:
        try:
            vs = U.values(spec_t, mat, max_elems=3, json64=True)
        except U._Exhausted:
            vs = None
        vals = []
        if vs is not None:
            for _ in range(3):
                vals.append(U.to_src(data.draw(vs), mat))
        p = progs.Prog(spec_t, mat, data, None)
        strat = inputs.any_input(p, vs)
        ins = list(vals)
        for _ in range(6):
            ins.append(data.draw(strat)[0])
    return vals, ins


def check_case(base_name, base, chain, position, data, col, counter):
    tag = f"c11_{next(counter)}"
    spec_t, spec_w = two_programs(base, chain, position)
    vals, ins = gen_inputs(spec_t, tag, data)
    ref_t, enc = outcomes(spec_t, tag, vals, ins)
    for k_, o_ in ref_t.items():
        if o_[0] == "harness":   # a generated source the harness itself could not evaluate: compared nothing
            col.label(f"harness:source-not-evaluable:{o_[1]}")
    forms = ["object", "object@clash"]
    named_root = position == "root" and chain and chain[-1] in ("newtype", "alias", "stralias")
    if named_root:
        forms += ["qualified-string", "forwardref", "bare:0", "bare:1", "bare:2", "bare:5", "qualified-string@clash", "forwardref@clash",
                  "nested-qualified-string", "nested-forwardref", "qualified-string-twice",
                  "qualifier-string:ClassVar", "qualifier-string:Final"]
    if position in ("list", "dictval", "tuple", "union") and chain and chain[-1] in ("newtype", "alias", "stralias"):
        forms += ["arg-forwardref"]
    for form in forms:
        col.ev()
        col.label(f"position:{position}")
        col.label(f"chain-len:{len(chain)}")
        col.label(f"form:{form.split(':')[0]}")
        col.label("caller:clashing-module" if form.endswith("@clash") else "caller:neutral")
        if len(chain) >= 2 or position != "root" or form != "object":
            col.nt(f"{base_name}|{chain}|{position}|{form}")
        case = {"base": base_name, "base_spec": base, "chain": list(chain), "position": position, "form": form, "values": vals, "inputs": ins}
        try:
            got, _ = outcomes(spec_w, tag, vals, ins, ref_form=form, bytes_in=enc)
        except Exception as e:  # building the wrapped program itself failed in the harness
            col.label("harness:wrapped-program-failed:" + type(e).__name__)
            continue
        diffs = [k for k in ref_t if (k in got or not k.startswith("sequel-")) and got.get(k) != ref_t[k]]
        if diffs:
            k = diffs[0]
            idx = int(k.split("#")[1])
            src = (vals if ("marshal" in k and "unmarshal" not in k) or k.startswith(("encode", "decode")) else ins)[idx]
            col.violation("transparent", case,
                          f"{base_name} wrapped by {'>'.join(chain)} at {position} [{form}]: {k} on {src[:80]}: wrapped -> {_s(got.get(k))}, plain -> {_s(ref_t[k])}",
                          bucket=f"{k.split('#')[0]}|{chain[-1] if chain else ''}|{position}|{form.split(':')[0]}|{_s(got.get(k))[:30]}")
    if len(chain) >= 2:
        col.sample({"base": base_name, "chain": list(chain), "position": position, "forms": forms, "inputs": ins[:4]})


def _s(o):
    if o is None:
        return "<missing>"
    return f"raises {o[1]}" if o[0] != "ok" else "returns " + repr(o[1])[:120]


# ---- function-local classes -------------------------------------------------------------------------
# A class that only exists inside a function cannot be named by any reference; wrappers made in the same
# function (NewType, value alias) must nevertheless be transparent wherever the class itself is accepted.
LOCAL_SRC = '''
import dataclasses, typing
def make(chain):
    @dataclasses.dataclass
    class Local:
        n: int
        tag: str = "t"
    W = Local
    for i, w in enumerate(chain):
        W = typing.NewType(f"W{i}", W) if w == "newtype" else typing.TypeAliasType(f"W{i}", W)
    @dataclasses.dataclass
    class HolderT:
        a: Local
        x: Local
    @dataclasses.dataclass
    class HolderW:
        a: Local
        x: W
    return Local, W, HolderT, HolderW
'''
LOCAL_POSITIONS = {
    "root": lambda L, X, H: X, "list": lambda L, X, H: list[X], "dictval": lambda L, X, H: dict[str, X],
    "tuple": lambda L, X, H: tuple[int, X], "union": lambda L, X, H: typing.Optional[X],
    "tuple2": lambda L, X, H: tuple[L, X], "union2": lambda L, X, H: tuple[L, typing.Optional[X]],
    "vtuple2": lambda L, X, H: tuple[L, list[X]], "field2": lambda L, X, H: H,
}


def check_local(col, counter):
    import sys as _sys
    import types as _types

    for chain in [c for n in (1, 2) for c in itertools.product(["newtype", "alias"], repeat=n)]:
        for pos, build in LOCAL_POSITIONS.items():
            name = f"c11_local_{next(counter)}"
            mod = _types.ModuleType(name)
            _sys.modules[name] = mod
            try:
                exec(LOCAL_SRC, mod.__dict__)  # noqa: S102
                Local, W, HolderT, HolderW = mod.make(chain)
                T_plain, T_wrapped = build(Local, Local, HolderT), build(Local, W, HolderW)
                shape = {"root": lambda z: z, "list": lambda z: [z], "dictval": lambda z: {"k": z}, "tuple": lambda z: (1, z),
                         "union": lambda z: z, "tuple2": lambda z: (z, z), "union2": lambda z: (z, z), "vtuple2": lambda z: (z, [z])}
                col.ev()
                col.label("position:local-class:" + pos)
                col.nt(f"local|{chain}|{pos}")
                outs = []
                for T, H in ((T_plain, HolderT), (T_wrapped, HolderW)):
                    tl.clear_all()
                    mk = (lambda z, H=H: H(z, z)) if pos == "field2" else shape[pos]
                    wire = (lambda z: {"a": z, "x": z}) if pos == "field2" else (lambda z: (list(shape[pos](z)) if isinstance(shape[pos](z), tuple) else shape[pos](z)))
                    v = mk(Local(1, "q"))
                    o = {"marshal": _o(tl.call(tl.marshal, v, t=T)), "unmarshal": _o(tl.call(tl.unmarshal, T, wire({"n": "1"}))),
                         "unmarshal-junk": _o(tl.call(tl.unmarshal, T, wire({"zz": object}))), "encode": _o(tl.call(lambda: tl.codec(T).encode(v)))}
                    o["decode"] = _o(tl.call(lambda: tl.codec(T).decode(tl.codec(T).encode(v))))
                    outs.append(o)
                plain, wrapped = outs
                plain = {k: (a, b.replace("HolderT", "Holder").replace("HolderW", "Holder")) for k, (a, b) in plain.items()}
                wrapped = {k: (a, b.replace("HolderT", "Holder").replace("HolderW", "Holder")) for k, (a, b) in wrapped.items()}
                for k in plain:
                    if plain[k] != wrapped[k]:
                        col.violation("transparent", {"local": True, "chain": list(chain), "position": pos},
                                      f"function-local class wrapped by {'>'.join(chain)} at {pos}: {k}: wrapped -> {_s(wrapped[k])}, plain -> {_s(plain[k])}",
                                      bucket=f"local|{k}|{pos}|{_s(wrapped[k])[:30]}")
            finally:
                _sys.modules.pop(name, None)


def check_late_definition(col):
    """A string-valued alias / ForwardRef is used before the class it names has been declared (the call fails, the caller
    handles it), the class is declared, the same wrapper again: it must now behave exactly like the class itself."""
    from harness import late
    vals = {"ItemAlias": ("Item", lambda m: m.Item("a", 2), {"sku": "b", "qty": "3"}), "ItemRef": ("Item", lambda m: m.Item("a", 2), {"sku": "b", "qty": "3"}),
            "ItemList": ("list[Item]", lambda m: [m.Item("a", 2)], [{"sku": "b", "qty": "3"}]), "LazyItems": ("list[Item]", lambda m: [m.Item("a", 2)], [{"sku": "b"}]),
            "LazyMap": ("dict[str, Item]", lambda m: {"k": m.Item("a", 2)}, {"k": {"sku": "b", "qty": "3"}})}
    for name, (plain_expr, mkval, wire) in vals.items():
        for early in (("unmarshal",), ("marshaller", "unmarshaller"), ("codec",), ("unmarshal", "marshaller", "unmarshal")):
            tl.clear_all()
            tp_ = late.TwoPhase("c11")
            try:
                W = tp_.mod.__dict__[name]
                for op in early:   # phase 1: fails, handled
                    tl.call(tl.unmarshal, W, wire) if op == "unmarshal" else tl.call(getattr(tl, op), W)
                tp_.declare()
                T = eval(plain_expr, dict(tp_.mod.__dict__))  # noqa: S307
                v = mkval(tp_.mod)
                outs = {}
                for label, X in (("wrapped", tp_.mod.__dict__[name]), ("plain", T)):
                    o = {"marshal": _o(tl.call(tl.marshal, v, t=X)), "unmarshal": _o(tl.call(tl.unmarshal, X, wire)),
                         "unmarshal-junk": _o(tl.call(tl.unmarshal, X, {"zz": 1} if isinstance(wire, dict) else [{"zz": 1}])),
                         "encode": _o(tl.call(lambda: tl.codec(X).encode(v)))}
                    o["decode"] = _o(tl.call(lambda: tl.codec(X).decode(tl.codec(X).encode(v))))
                    outs[label] = o
                col.ev()
                col.nt(f"late|{name}|{early}")
                col.label("late-definition")
                for k in outs["plain"]:
                    if outs["plain"][k] != outs["wrapped"][k]:
                        col.violation("transparent", {"late": name, "early_ops": list(early)},
                                      f"{name} first used before its target class existed (ops {early}), then after: {k}: wrapped -> {_s(outs['wrapped'][k])}, "
                                      f"{plain_expr} itself -> {_s(outs['plain'][k])}", bucket=f"late-definition|{name}|{k}")
                        break
            finally:
                tp_.close()


def all_chains(maxlen):
    for n in range(1, maxlen + 1):
        yield from itertools.product(WRAPPERS, repeat=n)


def exhaustive_cases():
    for bname, b in bases().items():
        for pos in POSITIONS:
            for chain in all_chains(2):
                if valid_chain(chain, b, pos):
                    yield bname, b, chain, pos
        for pos in POSITIONS2:
            for chain in all_chains(2 if bname in ("dataclass", "recursive", "enum") else 1):
                if valid_chain(chain, b, pos):
                    yield bname, b, chain, pos


def plan(tier, seed):
    shards = [{"kind": "exh", "mod": 12, "rem": i, "seed": seed * 1000 + i} for i in range(12)]
    shards.append({"kind": "local", "seed": seed * 1000 + 40})
    shards.append({"kind": "late-definition", "seed": seed * 1000 + 41})
    for i in range(4):
        shards.append({"kind": "sample", "seed": seed * 1000 + 50 + i, "n": 120 if tier == "quick" else 1500})
    return shards


def run_shard(shard, col):
    counter = itertools.count(shard["seed"] * 100000)
    if shard["kind"] == "local":
        check_local(col, counter)
        col.exhaustive_done = True
        return
    if shard["kind"] == "late-definition":
        check_late_definition(col)
        col.exhaustive_done = True
        return
    if shard["kind"] == "exh":
        cases = [c for i, c in enumerate(exhaustive_cases()) if i % shard["mod"] == shard["rem"]]

        # one Hypothesis run per case (a single example for all cases would outgrow Hypothesis's choice buffer)
        done = 0
        for i, (bname, b, chain, pos) in enumerate(cases):
            if col.out_of_time():
                break
            core.drive(st.data(), lambda data: check_case(bname, b, chain, pos, data, col, counter),  # noqa: B023
                       n=1, seed=shard["seed"] * 10007 + i, col=col)
            done += 1
        col.exhaustive_done = done == len(cases)
        return

    @st.composite
    def sampled(draw):
        if draw(st.booleans()):
            bname = draw(st.sampled_from(sorted(bases())))
            b = bases()[bname]
        else:
            b = draw(U.specs(max_depth=3, mods=1, wrappers=False))
            bname = "random"
        n = draw(st.sampled_from([3, 3, 2, 1]))
        chain = tuple(draw(st.sampled_from(WRAPPERS)) for _ in range(n))
        pos = draw(st.sampled_from(POSITIONS + POSITIONS2))
        return bname, b, chain, pos, draw(st.data())

    def one(c):
        bname, b, chain, pos, data = c
        if not valid_chain(chain, b, pos):
            return
        try:
            check_case(bname, b, chain, pos, data, col, counter)
        except U._Exhausted:
            pass

    core.drive(sampled(), one, n=shard["n"], seed=shard["seed"], col=col)
    col.exhaustive_done = True


def replay(clause, case, col):
    counter = itertools.count(987000)
    if case.get("local"):
        check_local(col, counter)
        return
    if case.get("late"):
        check_late_definition(col)
        return
    base, chain, pos = case["base_spec"], tuple(case["chain"]), case["position"]
    tag = f"c11_{next(counter)}"
    spec_t, spec_w = two_programs(base, chain, pos)
    ref_t, enc = outcomes(spec_t, tag, case["values"], case["inputs"])
    got, _ = outcomes(spec_w, tag, case["values"], case["inputs"], ref_form=case["form"], bytes_in=enc)
    col.ev()
    diffs = [k for k in ref_t if (k in got or not k.startswith("sequel-")) and got.get(k) != ref_t[k]]
    if diffs:
        k = diffs[0]
        col.violation("transparent", case, f"{k}: wrapped -> {_s(got.get(k))}, plain -> {_s(ref_t[k])}", bucket=k.split("#")[0])
