"""C08 - union members are tried in declared order, None always honoured.

Domain : ordered member tuples of length 2-4 over a pool of 12 member types (int, str, float, Decimal,
         date, datetime, UUID, list[int], dict[str, int], a dataclass, an Enum, a Literal), None absent
         or inserted at every position, spellings typing.Union / X | Y / Optional[Union[..]].
         Lengths 2 and 3 are enumerated exhaustively on every run; length 4 is sampled in the
         quick tier and exhaustive in the thorough tier. Inputs: a fixed pool of ~70 objects (every
         member has accepting and rejecting inputs; rejections through ValueError, TypeError,
         AttributeError, decimal.InvalidOperation, pendulum ParserError, OverflowError, OSError).
Oracle : reference = the independently built member routines tried in declared order; first one that
         does not raise gives the expected value; None member and x is None -> None; all raise ->
         the union raises ValueError. Same for marshal with the member marshallers.
"""

from __future__ import annotations

import dataclasses
import datetime
import decimal
import enum
import itertools
import typing
import uuid

from harness import core, tl
from harness.oracles import snapshot

ID = "C08"
RULE = ("every permutation of 2 and 3 members of the 12-type pool x None absent/at every position x spellings "
        "(exhaustive), length 4 sampled (quick) or exhaustive (thorough), x ~70 inputs x {unmarshal, marshal}; "
        "non-trivial = the first acceptor is not member 0, or None is a member but not declared last, or some member "
        "rejected with an exception other than ValueError/TypeError; distinct by (union expression, direction, input)")
ASSUMPTIONS = ["'accepts' means the member routine built on its own does not raise an Exception",
               "typelib caches are cleared before every union (equal-but-reordered unions share cache keys: C12's concern)"]
TECHNIQUE = "exhaustive enumeration (lengths 2-3; length 4 in thorough) of ordered unions x fixed input pool; differential oracle against a first-acceptor reference built from independently obtained member routines"
LEVEL_TEXT = ("Complete enumeration of all ordered unions of 2 and 3 members of the pool with None at every position and all "
              "spellings, each applied to ~70 inputs in both directions and compared with the first-acceptor reference; "
              "length-4 unions sampled (quick) or enumerated (thorough).")
LEVEL_NOTE = "trusts the member routines obtained independently via unmarshaller(A_i)/marshaller(A_i) as the reference's building blocks"
EXHAUSTIVE_NOTE = "lengths 1 (Optional[X]), 2 and 3: all 132 + 1320 permutations x None positions x spellings on every run; length 4 complete only in the thorough tier"


@dataclasses.dataclass
class DC:
    a: int
    b: str = "x"


class EN(enum.Enum):
    A = "a"
    ONE = 1


LIT = typing.Literal["a", 2, None] if False else typing.Literal["a", 2]

POOL = {
    "int": int, "str": str, "float": float, "Decimal": decimal.Decimal, "date": datetime.date,
    "datetime": datetime.datetime, "UUID": uuid.UUID, "list[int]": list[int], "dict[str, int]": dict[str, int],
    "DC": DC, "EN": EN, "LIT": LIT,
}
NAMES = list(POOL)
NS = {"typing": typing, "datetime": datetime, "decimal": decimal, "uuid": uuid, "DC": DC, "EN": EN, "LIT": LIT,
      "Decimal": decimal.Decimal, "date": datetime.date, "UUID": uuid.UUID, "dataclasses": dataclasses}
EXPR = {"int": "int", "str": "str", "float": "float", "Decimal": "decimal.Decimal", "date": "datetime.date",
        "datetime": "datetime.datetime", "UUID": "uuid.UUID", "list[int]": "list[int]", "dict[str, int]": "dict[str, int]",
        "DC": "DC", "EN": "EN", "LIT": "LIT"}

UNMARSHAL_INPUTS = [
    "None", "True", "0", "1", "-5", "10**20", "1.5", "2.0", "float('nan')", "''", "'a'", "'1'", "'2'", "'1.5'", "'abc'",
    "'null'", "'None'", "'[1, 2]'", "'[\"a\"]'", "'{\"a\": 1}'", "'{\"a\": \"x\"}'", "'2020-01-02'", "'2020-01-02T03:04:05+00:00'",
    "'12:30:00'", "'P1D'", "'00000000-0000-0000-0000-000000000005'", "'not a uuid'", "b'1'", "b'a'", "b'\\xff'", "[]", "[1, 2]",
    "['1', '2']", "['a']", "[[1]]", "{}", "{'a': 1}", "{'a': '2'}", "{'a': 'x'}", "{'a': 1, 'b': 'y'}", "{'b': 'y'}", "{1: 2}",
    "(1, 2)", "{1, 2}", "DC(1, 'q')", "EN.A", "EN.ONE", "decimal.Decimal('1.5')", "datetime.date(2020, 1, 2)",
    "datetime.datetime(2020, 1, 2, 3, 4, 5, tzinfo=datetime.timezone.utc)", "uuid.UUID(int=5)", "object()", "2", "'a b'",
    "253402300800", "-62135596801", "1e300", "[('a', 1)]", "'[1, 2'", "' '", "'1e5'", "'0x10'", "5", "'5'", "'x' * 40", "3.7",
    "datetime.time(1, 2, tzinfo=datetime.timezone.utc)", "datetime.timedelta(seconds=5)", "[None]", "{'a': None}", "'2'.encode()",
    # numbers a temporal member rejects with yet another error class (the platform's timestamp conversion: OSError / OverflowError)
    "2**62", "-2**63", "10**18", "1e18", "'1000000000000000000'", "2**63 - 1", "7 * 10**16",
    # text in the other carriers: every member looks at the very same input object, one after the other
    "memoryview(b'abc')", "memoryview(b'5')", "bytearray(b'1.5')", "memoryview(bytearray(b'2020-01-02'))", "memoryview(b'[1, 2]')",
    "bytearray(b'a')", "memoryview(b'00000000-0000-0000-0000-000000000005')",
    # live containers whose first members an earlier union member converts before it fails on a later one
    "{'a': '1', 'b': 'x'}", "{'a': 1.9, 'b': 'oops'}", "['1', '2', 'x']", "[1.9, 'x']", "{'a': '7', 'b': None}",
]
MARSHAL_INPUTS = [
    "None", "True", "0", "1", "-5", "10**20", "1.5", "''", "'a'", "'1'", "'abc'", "2", "'2020-01-02'",
    "[]", "[1, 2]", "['1']", "['a']", "{}", "{'a': 1}", "{'a': 'x'}", "(1, 2)", "{1, 2}", "DC(1, 'q')", "DC('7', 3)", "EN.A", "EN.ONE",
    "decimal.Decimal('1.5')", "datetime.date(2020, 1, 2)", "datetime.datetime(2020, 1, 2, 3, 4, 5, tzinfo=datetime.timezone.utc)",
    "uuid.UUID(int=5)", "object()", "b'1'", "float('inf')", "'2'", "[1.5]", "{'a': 1.5}", "datetime.timedelta(seconds=5)", "3.7",
]


def union_expr(members, none_pos, spelling):
    ms = [EXPR[m] for m in members]
    if none_pos is not None:
        if spelling == "Optional":
            return f"typing.Optional[typing.Union[{', '.join(ms)}]]"
        ms.insert(none_pos, "None")
    if spelling == "pipe":
        if ms[0] == "None" and len(ms) > 1 and ms[1] == "None":
            return "typing.Union[" + ", ".join(ms) + "]"
        return " | ".join(ms)
    return "typing.Union[" + ", ".join(ms) + "]"


def variants(members):
    k = len(members)
    for none_pos in ([None] if k > 1 else []) + [*range(k + 1)]:
        for spelling in ("Union", "pipe"):
            yield none_pos, spelling
        if none_pos == k:
            yield none_pos, "Optional"


_REF_U = {}
_REF_M = {}


_CODE = {}


def fresh(src):
    """a new object for every call: no member routine sees an input another call has already looked at (or converted in place)"""
    c = _CODE.get(src)
    if c is None:
        c = _CODE[src] = compile(src, "<input>", "eval")
        if src == "object()":
            _CODE[src] = c = ("obj", eval(c, dict(NS)))  # noqa: S307  (its text shows its address: one object for all calls)
    if isinstance(c, tuple):
        return c[1]
    return eval(c, dict(NS))  # noqa: S307


def _safe_snapshot(x):
    try:
        return snapshot(x)
    except Exception as e:  # noqa: BLE001  (a released memoryview)
        return ("<unusable>", type(e).__name__)


def reference(members, none_pos, src, direction):
    """first-acceptor reference from independently built member routines"""
    order = [POOL[m] for m in members]
    has_none = none_pos is not None
    if has_none and fresh(src) is None:
        return ("ok", snapshot(None)), 0, set()
    rejected_with = set()
    for i, t in enumerate(order):
        r = (tl.unmarshaller(t) if direction == "unmarshal" else tl.marshaller(t))
        k, v = tl.call(r, fresh(src))
        if k == "ok":
            return ("ok", snapshot(v)), i, rejected_with
        rejected_with.add(type(v).__name__)
    if has_none and direction == "unmarshal":
        pass  # the None member rejects every non-None input
    return ("exc", "builtins.ValueError"), None, rejected_with


def check_union(members, none_pos, spelling, col, inputs_u=UNMARSHAL_INPUTS, inputs_m=MARSHAL_INPUTS):
    expr = union_expr(members, none_pos, spelling)
    T = eval(expr, dict(NS))  # noqa: S307
    # The declared order is the order of the *runtime object*: CPython's typing cache may hand back
    # an equal union built earlier from the same members in another order when `X | Y | Literal[..]`
    # goes through typing.Union (its cache key compares `int | float` == `float | int`).
    args = typing.get_args(T)
    inv = {v: k for k, v in POOL.items()}
    real_members = tuple(inv[a] for a in args if a is not type(None))
    if real_members != tuple(members):
        col.label("python-typing-cache-reordered-members")
    members = real_members
    nones = [i for i, a in enumerate(args) if a is type(None)]
    none_pos = nones[0] if nones else None
    for direction, pool in (("unmarshal", inputs_u), ("marshal", inputs_m)):
        tl.clear_all()
        kb, routine = tl.call(tl.unmarshaller if direction == "unmarshal" else tl.marshaller, T)
        if kb == "exc":
            col.ev()
            col.violation("routine-builds", {"members": list(members), "none_pos": none_pos, "spelling": spelling,
                                             "direction": direction, "input": None},
                          f"{direction}r({expr}) raised {tl.exc_name(routine)}: {routine}", bucket=tl.exc_name(routine))
            continue
        for src in pool:
            col.ev()
            want, idx, rej = reference(members, none_pos, src, direction)
            x_in = fresh(src)
            before_in = _safe_snapshot(x_in)
            k, v = tl.call(routine, x_in)
            got = ("ok", snapshot(v)) if k == "ok" else ("exc", tl.exc_name(v))
            if _safe_snapshot(x_in) != before_in and not src.startswith("memoryview"):
                col.violation(f"{direction}-first-acceptor",
                              {"members": list(members), "none_pos": none_pos, "spelling": spelling, "direction": direction, "input": src},
                              f"{direction}({expr}, {src}) changed its input: the members after the first see what an earlier member left behind",
                              bucket="input-changed")
            nontriv = (idx not in (0, None)) or (none_pos is not None and none_pos != len(members)) or bool(rej - {"ValueError", "TypeError"})
            if nontriv:
                col.nt(f"{expr}|{direction}|{src}")
                if idx not in (0, None) and len(col.samples) < core.MAX_SAMPLES and (col.evaluations % 97 == 0):
                    col.sample({"union": expr, "direction": direction, "input": src, "first_acceptor": members[idx],
                                "earlier_members_rejected_with": sorted(rej)})
            if idx not in (0, None):
                col.label("first-acceptor:later-member")
            if rej - {"ValueError", "TypeError"}:
                col.label("rejected-with:" + ",".join(sorted(rej - {"ValueError", "TypeError"})))
            if got != want:
                col.violation(f"{direction}-first-acceptor",
                              {"members": list(members), "none_pos": none_pos, "spelling": spelling, "direction": direction, "input": src},
                              f"{direction}({expr}, {src}) -> {_d(got)}, reference (member #{idx}) -> {_d(want)}",
                              bucket=f"{'raises' if got[0] == 'exc' else 'returns'}|want-{'raises' if want[0] == 'exc' else 'returns'}|{got[1] if got[0] == 'exc' else ''}"[:100])
            # the public entry point (the statement's own observation point) must say the same as the routine
            col.ev()
            k2, v2 = tl.call(tl.unmarshal, T, fresh(src)) if direction == "unmarshal" else tl.call(tl.marshal, fresh(src), t=T)
            got2 = ("ok", snapshot(v2)) if k2 == "ok" else ("exc", tl.exc_name(v2))
            if got2 != want:
                col.violation(f"{direction}-first-acceptor",
                              {"members": list(members), "none_pos": none_pos, "spelling": spelling, "direction": direction, "input": src, "api": True},
                              f"typelib.{direction}({expr}, {src}) -> {_d(got2)}, reference (member #{idx}) -> {_d(want)}",
                              bucket=f"api|{'raises' if got2[0] == 'exc' else 'returns'}|want-{'raises' if want[0] == 'exc' else 'returns'}|{got2[1] if got2[0] == 'exc' else ''}"[:100])
    # the JSON route: typelib.decode / codec(T).decode of a document must say what unmarshal says about the decoded document
    import json as _json
    tl.clear_all()
    for src in inputs_u:
        x = fresh(src)
        if type(x) not in (type(None), bool, int, float, str, list, dict) or (isinstance(x, float) and x != x):
            continue
        try:
            doc = _json.dumps(x).encode()
            if _json.loads(doc) != x or type(_json.loads(doc)) is not type(x) or abs(x if isinstance(x, (int, float)) and not isinstance(x, bool) else 0) >= 2 ** 53:
                continue
        except Exception:
            continue
        want, idx, _rej = reference(members, none_pos, src, "unmarshal")
        for route, f in (("typelib.decode", lambda: tl.typelib.decode(T, doc)), ("codec.decode", lambda: tl.codec(T).decode(doc))):
            col.ev()
            col.label("route:" + route)
            k3, v3 = tl.call(f)
            got3 = ("ok", snapshot(v3)) if k3 == "ok" else ("exc", tl.exc_name(v3))
            if got3 != want:
                col.violation("unmarshal-first-acceptor",
                              {"members": list(members), "none_pos": none_pos, "spelling": spelling, "direction": "unmarshal", "input": src, "route": route},
                              f"{route}({expr}, {doc!r}) -> {_d(got3)}, reference (member #{idx}) -> {_d(want)}",
                              bucket=f"{route}|{'raises' if got3[0] == 'exc' else 'returns'}|want-{'raises' if want[0] == 'exc' else 'returns'}")
    col.label(f"len:{len(members)}")
    col.label(f"spelling:{spelling}")
    col.label("none:absent" if none_pos is None else ("none:last" if none_pos == len(members) else "none:not-last"))


def check_warm_sequence(seq, col):
    """A history of unions with pairwise different member sets (so no two of them compare equal), each written inline
    and dropped right after the call - the way annotations appear in user code (`unmarshal(int | str, x)`) - with warm
    caches: the outcome must still be the first acceptor's, whatever objects lived at the same address before."""
    tl.clear_all()
    for step, (members, none_pos, picks) in enumerate(seq):
        expr = union_expr(members, none_pos, "pipe")
        args = typing.get_args(eval(expr, dict(NS)))  # noqa: S307
        inv = {v: k for k, v in POOL.items()}
        real = tuple(inv[a] for a in args if a is not type(None))
        nones = [i for i, a in enumerate(args) if a is type(None)]
        npos = nones[0] if nones else None
        for direction, pool in (("unmarshal", UNMARSHAL_INPUTS), ("marshal", MARSHAL_INPUTS)):
            for pk in picks:
                src = pool[pk % len(pool)]
                col.ev()
                want, idx, _rej = reference(real, npos, src, direction)
                if direction == "unmarshal":
                    k, v = tl.call(lambda: tl.unmarshal(eval(expr, dict(NS)), fresh(src)))  # noqa: S307
                else:
                    k, v = tl.call(lambda: tl.marshal(fresh(src), t=eval(expr, dict(NS))))  # noqa: S307
                got = ("ok", snapshot(v)) if k == "ok" else ("exc", tl.exc_name(v))
                if step:
                    col.nt(f"warm|{step}|{expr}|{direction}|{src}")
                col.label("warm-inline-union")
                if got != want:
                    col.violation(f"{direction}-first-acceptor",
                                  {"warm": [[list(m), n, list(pk_)] for m, n, pk_ in seq[:step + 1]], "direction": direction, "input": src},
                                  f"step {step} of a warm history: typelib.{direction}({expr}, {src}) -> {_d(got)}, reference (member #{idx}) -> {_d(want)}",
                                  bucket=f"warm|{'raises' if got[0] == 'exc' else 'returns'}|want-{'raises' if want[0] == 'exc' else 'returns'}")


def _d(o):
    return f"raises {o[1]}" if o[0] == "exc" else "returns " + repr(o[1])[:100]


def all_unions(k):
    for members in itertools.permutations(NAMES, k):
        for none_pos, spelling in variants(members):
            yield members, none_pos, spelling


def plan(tier, seed):
    shards = []
    shards.append({"kind": "exhaustive", "k": 1, "mod": 1, "rem": 0})   # Optional[X] in every spelling: one member next to None
    for k in (2, 3):
        for i in range(16 if k == 3 else 4):
            shards.append({"kind": "exhaustive", "k": k, "mod": 16 if k == 3 else 4, "rem": i})
    if tier == "thorough":
        for i in range(64):
            shards.append({"kind": "exhaustive", "k": 4, "mod": 64, "rem": i})
    else:
        for i in range(8):
            shards.append({"kind": "sample4", "seed": seed * 1000 + i, "n": 60})
    for i in range(4):
        shards.append({"kind": "warm", "seed": seed * 1000 + 50 + i, "n": 150 if tier == "quick" else 3000})
    return shards


def run_shard(shard, col):
    if shard["kind"] == "exhaustive":
        for i, (members, none_pos, spelling) in enumerate(all_unions(shard["k"])):
            if i % shard["mod"] != shard["rem"]:
                continue
            if col.out_of_time():
                return
            check_union(members, none_pos, spelling, col)
        col.exhaustive_done = True
        return
    from harness.core import st

    if shard["kind"] == "warm":
        @st.composite
        def history(draw):
            seq, seen = [], set()
            for _ in range(draw(st.integers(3, 8))):
                k = draw(st.integers(2, 3))
                members = tuple(draw(st.permutations(NAMES))[:k])
                none_pos = draw(st.sampled_from([None, None, *range(k + 1)]))
                key = (frozenset(members), none_pos is not None)
                if key in seen:
                    continue
                seen.add(key)
                seq.append((members, none_pos, draw(st.lists(st.integers(0, 200), min_size=2, max_size=4))))
            return seq

        core.drive(history(), lambda sq: check_warm_sequence(sq, col), n=shard["n"], seed=shard["seed"], col=col)
        col.exhaustive_done = True
        return

    @st.composite
    def u4(draw):
        members = tuple(draw(st.permutations(NAMES))[:4])
        none_pos = draw(st.sampled_from([None, 0, 1, 2, 3, 4]))
        spelling = draw(st.sampled_from(["Union", "pipe"] + (["Optional"] if none_pos == 4 else [])))
        return members, none_pos, spelling

    core.drive(u4(), lambda c: check_union(*c, col), n=shard["n"], seed=shard["seed"], col=col)
    col.exhaustive_done = True


def exhaustive(tier):
    return tier == "thorough"


def replay(clause, case, col):
    if "warm" in case:
        check_warm_sequence([(tuple(m), n, list(pk)) for m, n, pk in case["warm"]], col)
        return
    src = case.get("input")
    pool_u = [src] if (src and case["direction"] == "unmarshal") else []
    pool_m = [src] if (src and case["direction"] == "marshal") else []
    check_union(tuple(case["members"]), case["none_pos"], case["spelling"], col, pool_u, pool_m)
