"""C02 - JSON wire round trip and agreement of all entry points.

Generator : programs of U restricted to str-keyed mappings, 64-bit ints, valid Unicode, finite floats
            x valid values x codec configuration in {default (orjson here), stdlib json, a tagging
            test codec (magic header + sorted keys)}; plus root bytes / bytearray / memoryview with
            arbitrary payloads (invalid UTF-8 included).
Oracle    : (a) codec.decode(codec.encode(v)) deep_same v (strong law when no union can capture the
            value - same rule as C01 - else the encode/decode fixpoint);
            (b) JSON configs: stdlib json.loads(bytes) equals marshal(v, t=T) type-strictly;
            (c) Codec.encode == typelib.encode(encoder=..) == encoder(marshal(..)) byte for byte, and
            Codec.decode == typelib.decode(decoder=..) == unmarshal(decoder(..));
            (d) bytes-like T: every encode path returns exactly the payload bytes, every decode
            path returns T(payload).
"""

from __future__ import annotations

import json

from harness import progs, tl
from harness import universe as U
from harness.core import st
from harness.oracles import (deep_same, diff_bucket, exc_bucket, same_up_to_duration_float, snapshot,
                             why_different)
from harness.props.c01 import ambiguity, value_labels

ID = "C02"
RULE = ("programs of U (str-keyed mappings, 64-bit ints) x 5 values x 3 codec configurations, plus bytes-like roots; "
        "non-trivial = non-default configuration, or the value contains non-ASCII text / a nested container / a "
        "string that itself parses as JSON; distinct by (spec, value source, configuration)")
ASSUMPTIONS = ["orjson and stdlib json are both correctly rounding for finite floats",
               "clause (b) is skipped for the tagging codec (not JSON by construction)"]
TECHNIQUE = "property-based testing: round-trip + differential oracle (three entry points byte-for-byte, stdlib json.loads as an independent parser) over generated programs and codec configurations"
LEVEL_TEXT = ("Exploration over generated annotations, values and three encoder/decoder configurations; every case compares "
              "three encode paths byte for byte, three decode paths value for value, and the bytes against an independent JSON parser.")
LEVEL_NOTE = "trusts stdlib json as the reference JSON parser"

typelib = tl.typelib


def std_enc(m):
    return json.dumps(m).encode("utf-8")


def std_dec(b):
    return json.loads(b)


MAGIC = b"TAG1"


def tag_enc(m):
    return MAGIC + json.dumps(m, sort_keys=True, ensure_ascii=False).encode("utf-8")


def tag_dec(b):
    b = bytes(b)
    if not b.startswith(MAGIC):
        raise ValueError("missing tag")
    return json.loads(b[len(MAGIC):])


CONFIGS = {
    "default": {},
    "stdlib": {"encoder": std_enc, "decoder": std_dec},
    "tagging": {"encoder": tag_enc, "decoder": tag_dec},
}


def _looks_json(v, depth=0):
    if depth > 30:
        return False
    if isinstance(v, str):
        try:
            json.loads(v)
            return True
        except Exception:
            return not v.isascii()
    if isinstance(v, dict):
        return any(_looks_json(x, depth + 1) for x in v.values()) or bool(v)
    if isinstance(v, (list, tuple, set, frozenset)):
        return True
    return hasattr(v, "__dict__") or hasattr(v, "__dataclass_fields__")


def check_value(p, v, cfg_name, col):
    T, mat, spec = p.T, p.mat, p.spec
    cfg = CONFIGS[cfg_name]
    enc = cfg.get("encoder", typelib.compat.json.dumps)
    dec = cfg.get("decoder", typelib.compat.json.loads)
    vsrc = p.src(v)
    col.ev()
    col.label("cfg:" + cfg_name)
    if cfg_name != "default" or _looks_json(v):
        col.nt(p.key + vsrc + cfg_name)
        if len(vsrc) < 200:
            col.sample({"T": mat.root_expr, "v": vsrc, "cfg": cfg_name})
    amb = None  # decided after the first library calls: the rule builds routines for member types (cache warmth)

    def case():
        c = p.case(value=vsrc, cfg=cfg_name)
        if amb:
            c["ambiguous"] = amb
        return c

    kc, cdc = tl.call(typelib.codec, T, **cfg)
    if kc == "exc":
        col.violation("codec-construct", case(), f"codec({mat.root_expr}) raised {tl.exc_name(cdc)}: {cdc}", bucket=exc_bucket(cdc))
        return
    k1, b1 = tl.call(cdc.encode, v)
    k2, b2 = tl.call(typelib.encode, v, t=T, **({"encoder": enc} if "encoder" in cfg else {}))
    k3, b3 = tl.call(lambda: enc(tl.marshal(v, t=T)))
    amb = ambiguity(spec, v, mat) if U.has_kind(spec, "union", "optional") else None
    def hist_case():
        """(see c01.history_diag) the same encode / decode / encode with every cache cleared"""
        def trace():
            out = []
            k_, cd_ = tl.call(typelib.codec, T, **cfg)
            if k_ == "exc":
                return ["codec-exc"]
            k_, b_ = tl.call(cd_.encode, v)
            out.append(bytes(b_) if k_ == "ok" else ("exc", tl.exc_name(b_)))
            if k_ == "ok":
                k_, d_ = tl.call(cd_.decode, b_)
                out.append(snapshot(d_) if k_ == "ok" else ("exc", tl.exc_name(d_)))
                if k_ == "ok":
                    k_, bb_ = tl.call(cd_.encode, d_)
                    out.append(bytes(bb_) if k_ == "ok" else ("exc", tl.exc_name(bb_)))
            return out
        c = case()
        warm = trace()
        tl.clear_all()
        if trace() != warm:
            c["diag"] = "history-dependent"
        return c

    if k1 == "exc" and amb:
        col.violation("union-fixpoint", hist_case(), f"encode raised {tl.exc_name(b1)} for a value captured by an earlier union member", bucket="encode-raises")
        return
    if k1 == "exc":
        col.violation("encode-succeeds", case(), f"codec({mat.root_expr}).encode({vsrc[:140]}) raised {tl.exc_name(b1)}: {b1}",
                      bucket=exc_bucket(b1))
        return
    if not isinstance(b1, bytes):
        col.violation("encode-returns-bytes", case(), f"encode returned {type(b1).__name__}")
        return
    if (k2, k3) != ("ok", "ok") or not (bytes(b1) == bytes(b2) == bytes(b3)):
        col.violation("entry-points-agree-encode", case(),
                      f"T={mat.root_expr} v={vsrc[:120]}: Codec.encode={b1!r:.80} typelib.encode={b2!r:.80} encoder(marshal)={b3!r:.80}",
                      bucket="encode")
    # (b) independent parser
    if cfg_name != "tagging":
        try:
            parsed = json.loads(b1)
            km, m = tl.call(tl.marshal, v, t=T)
            if km == "ok" and snapshot(parsed) != snapshot(m):
                col.violation("bytes-are-json-of-marshal", case(),
                              f"T={mat.root_expr}: json.loads({b1!r:.100}) = {parsed!r:.100} but marshal = {m!r:.100}",
                              bucket=diff_bucket(parsed, m))
        except Exception as e:  # noqa: BLE001
            col.violation("bytes-are-json-of-marshal", case(), f"stdlib json cannot parse {b1!r:.120}: {e}", bucket="unparsable")
    # decode paths
    d1 = tl.call(cdc.decode, b1)
    d2 = tl.call(typelib.decode, T, b1, **({"decoder": dec} if "decoder" in cfg else {}))
    d3 = tl.call(lambda: tl.unmarshal(T, dec(b1)))
    outs = [("exc", tl.exc_name(d[1])) if d[0] == "exc" else ("ok", snapshot(d[1])) for d in (d1, d2, d3)]
    if not (outs[0] == outs[1] == outs[2]):
        col.violation("entry-points-agree-decode", case(), f"T={mat.root_expr} bytes={b1!r:.100}: {[o[0] if o[0]=='ok' else o for o in outs]}",
                      bucket="decode")
    if d1[0] == "exc":
        c = case()
        if amb and isinstance(d1[1], ValueError):
            col.violation("union-fixpoint", hist_case(), f"decode raised {tl.exc_name(d1[1])} for ambiguous union", bucket="decode-raises")
        else:
            col.violation("decode-succeeds", c, f"codec({mat.root_expr}).decode({b1!r:.140}) raised {tl.exc_name(d1[1])}: {d1[1]}",
                          bucket=exc_bucket(d1[1]))
        return
    u = d1[1]
    if amb is None:
        if not deep_same(u, v):
            c = case()
            if same_up_to_duration_float(u, v):
                c["diag"] = "duration-float-precision"
            col.violation("wire-round-trip", c, f"T={mat.root_expr} v={vsrc[:140]} bytes={b1!r:.100} -> {why_different(u, v)}",
                          bucket=diff_bucket(u, v))
    else:
        kk, bb = tl.call(cdc.encode, u)
        if kk == "exc" or bytes(bb) != bytes(b1):
            col.violation("union-fixpoint", hist_case(), f"T={mat.root_expr}: encode(decode(b)) = {bb!r:.100} != {b1!r:.100}", bucket="fixpoint")


BYTES_WRAPS = ["plain", "newtype", "alias", "newtype>newtype", "alias>newtype", "newtype>alias", "alias>alias", "final", "stralias"]


def _wrapped_bytes_type(B, wrap):
    """the bytes-like class B behind a chain of wrappers (inner > outer)"""
    import typing
    T = B
    if wrap == "plain":
        return T
    if wrap == "final":
        return typing.Final[B]
    if wrap == "stralias":
        # a string-valued alias: `Payload = TypeAliasType("Payload", "bytes")` (known finding K-STRBYTES)
        return typing.TypeAliasType("PayloadS", B.__name__)
    for i, w in enumerate(wrap.split(">")):
        T = typing.NewType(f"Blob{i}", T) if w == "newtype" else typing.TypeAliasType(f"Payload{i}", T)
    return T


def check_bytes(kind, payload: bytes, cfg_name, col, wrap="plain"):
    B = {"bytes": bytes, "bytearray": bytearray, "memoryview": memoryview}[kind]
    T = _wrapped_bytes_type(B, wrap)
    tl.clear_all()
    cfg = CONFIGS[cfg_name]
    v = B(payload)
    col.ev()
    col.label("bytes-like:" + kind)
    col.label("bytes-like-spelling:" + wrap)
    col.nt(f"{kind}{wrap}{payload!r}{cfg_name}")
    case = {"bytes_kind": kind, "payload": payload.hex(), "cfg": cfg_name, "wrap": wrap}
    enc_kw = {"encoder": cfg["encoder"]} if "encoder" in cfg else {}
    dec_kw = {"decoder": cfg["decoder"]} if "decoder" in cfg else {}
    cdc = typelib.codec(T, **cfg)
    paths = {
        "Codec.encode": tl.call(cdc.encode, v),
        "typelib.encode": tl.call(typelib.encode, v, t=T, **enc_kw),
    }
    if wrap == "plain":
        paths["typelib.encode(t=None)"] = tl.call(typelib.encode, v, **enc_kw)
    for name, (k, b) in paths.items():
        if k == "exc":
            col.violation("bytes-verbatim-encode", case, f"{name}({kind}({payload!r})) raised {tl.exc_name(b)}: {b}", bucket=name)
        elif bytes(b) != payload:
            col.violation("bytes-verbatim-encode", case, f"{name}({kind}({payload!r})) = {bytes(b)!r}", bucket=name)
    dpaths = {
        "Codec.decode": tl.call(cdc.decode, payload),
        "typelib.decode": tl.call(typelib.decode, T, payload, **dec_kw),
    }
    for name, (k, r) in dpaths.items():
        if k == "exc":
            col.violation("bytes-verbatim-decode", case, f"{name}({kind}, {payload!r}) raised {tl.exc_name(r)}: {r}", bucket=name)
        elif not (isinstance(r, B) and bytes(r) == payload):
            col.violation("bytes-verbatim-decode", case, f"{name}({kind}, {payload!r}) = {r!r}", bucket=name)


def per_program(p):
    try:
        vs = U.values(p.spec, p.mat, json64=True)
    except U._Exhausted:
        return
    for i_ in range(5):
        v = p.draw(vs)
        for cfg in CONFIGS:
            check_value(p, v, cfg, p.col)
        if i_ in (1, 3):
            # encode after an encode of this very object failed on one invalid member and was handled (member put back in place)
            from harness import retry
            pick = p.draw(st.integers(0, 10 ** 6))
            kc, cdc = tl.call(typelib.codec, p.T)
            if kc == "ok":
                r = retry.retry_after_failure(v, lambda o: tl.call(lambda: bytes(cdc.encode(o))), pick)
                if r is not None:
                    p.col.ev()
                    p.col.label(f"retry:first-call-{'failed' if r[0] else 'passed'}")
                    if r[2] != r[1]:
                        p.col.violation("wire-round-trip", p.case(value=p.src(v), cfg="default", retry=pick),
                                        f"T={p.mat.root_expr}: encode failed on an invalid member, the member was put back in place, the same call then "
                                        f"{'raised ' + r[2][1] if r[2][0] == 'exc' else 'gave other bytes'}", bucket=f"retry|{r[2][0]}")


def plan(tier, seed):
    n = 200 if tier == "quick" else 1500
    depth = 4 if tier == "quick" else 6
    shards = [{"kind": "progs", "seed": seed * 1000 + k, "n": n, "depth": depth} for k in range(15)]
    shards.append({"kind": "bytes", "seed": seed * 1000 + 99, "n": 1000 if tier == "quick" else 5000})
    return shards


def run_shard(shard, col):
    if shard["kind"] == "bytes":
        from harness import core

        def one(t):
            kind, payload, cfg, wrap = t
            check_bytes(kind, payload, cfg, col, wrap)

        payloads = st.one_of(st.binary(max_size=40), st.sampled_from([b"", b"1", b"null", b'"a"', b"[1]", b"\xff\xfe", b"\x00", "é".encode(), b'{"a": 1}', b'"quoted"', b"\xff", b"\x80abc", b"true"]))
        core.drive(st.tuples(st.sampled_from(["bytes", "bytearray", "memoryview"]), payloads, st.sampled_from(list(CONFIGS)),
                             st.sampled_from(["plain", "plain", *BYTES_WRAPS])),
                   one, n=shard["n"], seed=shard["seed"], col=col)
        return
    progs.drive_programs(col, seed=shard["seed"], n=shard["n"],
                         spec_strategy=U.root_specs(max_depth=shard["depth"], mods=2, str_keys=True), per_program=per_program)


def replay(clause, case, col):
    if "bytes_kind" in case:
        check_bytes(case["bytes_kind"], bytes.fromhex(case["payload"]), case["cfg"], col, case.get("wrap", "plain"))
        return
    progs.replay_program(case, col, lambda p: check_value(p, p.mat.eval(case["value"]), case["cfg"], col))
