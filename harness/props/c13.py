"""C13 - already-valid values pass through unmarshal unchanged; unmarshal is idempotent.

Generator : union-free / Optional-only programs of U; (A) valid values made of exactly the annotated
            classes with the adversarial bias of the universe (strings that parse as JSON / numbers /
            dates / null, 2-character strings, 2-element first members, str-mixin enum members);
            (B) arbitrary inputs from the C03 sources.
Oracle    : (A) deep_same(unmarshal(T, v), v) and v itself unchanged;
            (B) if unmarshal(T, x) returns r then unmarshal(T, r) returns r' with deep_same(r', r).
"""

from __future__ import annotations

import collections

from harness import inputs, progs, tl
from harness import universe as U
from harness.core import st
from harness import retry
from harness.oracles import mutable_ids, deep_same, diff_bucket, exc_bucket, snapshot, why_different
from harness.props.c01 import value_labels

ID = "C13"
RULE = ("union-free/Optional-only programs of U x (6 valid values + 12 arbitrary inputs); non-trivial = (A) the value "
        "contains a look-alike string, a 2-character string / 2-element first member, or a str-mixin enum member; "
        "(B) the first call returned and the input was not already a valid instance; distinct by (spec, value or input source)")
ASSUMPTIONS = ["T is union-free or Optional-only (the statement's domain)", "datetime/time fold is not compared"]
TECHNIQUE = "property-based testing: identity law on adversarially biased valid values + idempotence (metamorphic) law on arbitrary inputs"
LEVEL_TEXT = ("Exploration over generated union-free annotations: valid instances must come back class-exact and equal; "
              "any input that unmarshals once must unmarshal to the same value again.")
RULE_EXTRA = "valid values reach the unmarshaller by three routes (function, routine object, codec step); two per program also after a handled failure on the same object"
LEVEL_NOTE = "trusts the universe's value generator to produce valid instances made of exactly the annotated classes"


def check_valid(p, v, col):
    mat = p.mat
    vsrc = p.src(v)
    col.ev()
    col.label("clause:pass-through")
    labels = value_labels(v)
    adversarial = labels & {"lookalike-str", "two-char-str", "str-enum", "lookalike-enum-value"} or _two_elem_first(v)
    if adversarial:
        col.nt(p.key + vsrc)
        col.label("adversarial-value")
        if len(vsrc) < 200:
            col.sample({"T": mat.root_expr, "v": vsrc})
    before = snapshot(v)
    route = len(vsrc) % 3     # the function, the routine object, the codec's own unmarshal step
    k, r = (tl.call(tl.unmarshal, p.T, v) if route == 0 else tl.call(lambda: tl.unmarshaller(p.T)(v)) if route == 1
            else tl.call(lambda: tl.codec(p.T).unmarshal(v)))
    case = p.case(value=vsrc)
    if k == "exc":
        col.violation("pass-through", case, f"unmarshal({mat.root_expr}, {vsrc[:160]}) raised {tl.exc_name(r)}: {r}",
                      bucket=exc_bucket(r))
        return
    if not deep_same(r, v):
        col.violation("pass-through", case, f"unmarshal({mat.root_expr}, {vsrc[:160]}) -> {why_different(r, v)}",
                      bucket=diff_bucket(r, v))
    if snapshot(v) != before:
        col.violation("input-unchanged", case, "unmarshal modified a valid input")
        return
    # what was returned belongs to the caller: emptying / filling it must not matter to the next call with an equal valid value
    import copy as _copy
    muts = [x for x in mutable_ids(r).values() if isinstance(x, (list, set, dict, collections.deque))] if r is not v else []
    if muts:
        try:
            v2 = _copy.deepcopy(v)
        except Exception:
            return
        for m_ in muts[:6]:
            if any(m_ is x for x in mutable_ids(v).values()):
                continue      # (an already valid member handed through as it is: the caller's own object)
            if isinstance(m_, dict):
                m_["__mutated__"] = 1
            elif isinstance(m_, set):
                m_.add("__mutated__")
            else:
                m_.append("__mutated__")
        col.ev()
        col.label("clause:pass-through-after-mutating-earlier-result")
        k2, r2 = (tl.call(tl.unmarshal, p.T, v2) if route == 0 else tl.call(lambda: tl.unmarshaller(p.T)(v2)) if route == 1
                  else tl.call(lambda: tl.codec(p.T).unmarshal(v2)))
        if k2 == "exc" or not deep_same(r2, v):
            col.violation("pass-through", dict(case, after_mutation=True),
                          f"unmarshal({mat.root_expr}, v) after the caller changed the containers of an earlier result: "
                          f"{'raised ' + tl.exc_name(r2) if k2 == 'exc' else why_different(r2, v)}", bucket="after-mutating-earlier-result")


def _two_elem_first(v):
    if isinstance(v, (list, tuple)) and v:
        f = v[0]
        if isinstance(f, (str, list, tuple, set, frozenset, dict)) and len(f) == 2:
            return True
    return False


def check_idempotent(p, src, kind, col):
    mat = p.mat
    col.ev()
    col.label("clause:idempotence")
    try:
        x = inputs.eval_src(src, mat)
    except Exception as e:
        col.label("harness:input-eval-failed:" + type(e).__name__)
        return
    k, r = tl.call(tl.unmarshal, p.T, x)
    if k == "exc":
        col.label("first-call:raised")
        return
    col.label("first-call:returned")
    if kind != "valid-wire":
        col.nt(p.key + src)
    sr = snapshot(r)
    k2, r2 = tl.call(tl.unmarshal, p.T, r)
    case = p.case(input=src)
    if k2 == "exc":
        col.violation("idempotent", case, f"unmarshal({mat.root_expr}, {src[:120]}) = {r!r:.120} but unmarshalling that raised {tl.exc_name(r2)}: {r2}",
                      bucket=exc_bucket(r2))
        return
    if snapshot(r2) != sr:
        col.violation("idempotent", case, f"unmarshal({mat.root_expr}, {src[:120]}) = {r!r:.120}; again -> {why_different(r2, r)}",
                      bucket=diff_bucket(r2, r))


def per_program(p):
    if p.data is not None and p.draw(st.integers(0, 2)) == 0:
        p.warm("marshaller")   # the routines of the other direction built first
    try:
        vs = U.values(p.spec, p.mat, max_elems=3)
    except U._Exhausted:
        vs = None
    if vs is not None:
        for i_ in range(6):
            v_ = p.draw(vs)
            check_valid(p, v_, p.col)
            if i_ in (1, 4):
                # the valid value after a call that failed on this very object (one member invalid, then repaired in place)
                pick = p.draw(st.integers(0, 10 ** 6))
                r = retry.retry_after_failure(v_, lambda o: tl.call(tl.unmarshal, p.T, o), pick)
                if r is not None:
                    p.col.ev()
                    failed, want, got = r
                    p.col.label(f"retry:first-call-{'failed' if failed else 'passed'}")
                    if failed:
                        p.col.nt(p.key + p.src(v_) + "retry")
                    if got != want:
                        p.col.violation("pass-through", p.case(value=p.src(v_), retry=True, pick=pick),
                                        f"unmarshal({p.mat.root_expr}, v) failed on an invalid member, the member was repaired in place, the same call then "
                                        f"{'raised ' + got[1] if got[0] == 'exc' else 'returned something else'}", bucket=f"retry|{got[0]}")
    strat = inputs.any_input(p, vs)
    for _ in range(12):
        src, kind = p.draw(strat)
        check_idempotent(p, src, kind, p.col)


def plan(tier, seed):
    n = 200 if tier == "quick" else 2000
    depth = 4 if tier == "quick" else 5
    shards = [{"seed": seed * 1000 + k, "n": n, "depth": depth, "adversarial": k % 4 == 3} for k in range(16)]
    # one parameterised generic met twice in one annotation (nested first / bare first)
    shards += [{"seed": seed * 1000 + 70 + k, "n": n, "depth": 3, "repeated": True} for k in range(2)]
    return shards


def run_shard(shard, col):
    U.PATTERN_FLAGS = True  # compiled patterns with flags are valid values of re.Pattern (this worker process only)
    progs.drive_programs(col, seed=shard["seed"], n=shard["n"],
                         spec_strategy=U.repeated_generic_specs() if shard.get("repeated") else U.root_specs(max_depth=shard["depth"], mods=3 if shard.get("adversarial") else 2, wide_unions=False, adversarial=bool(shard.get("adversarial"))),
                         per_program=per_program)


def replay(clause, case, col):
    if case.get("retry"):
        def f(p):
            r = retry.retry_after_failure(p.mat.eval(case["value"]), lambda o: tl.call(tl.unmarshal, p.T, o), case["pick"])
            col.ev()
            if r is not None and r[2] != r[1]:
                col.violation("pass-through", case, f"after a handled failure on this object: {r[2][0]}", bucket=f"retry|{r[2][0]}")
        progs.replay_program(case, col, f)
    elif "value" in case:
        progs.replay_program(case, col, lambda p: check_valid(p, p.mat.eval(case["value"]), col))
    else:
        progs.replay_program(case, col, lambda p: check_idempotent(p, case["input"], "replay", col))


def cg_plan(seed):
    """coverage-guided shards of the thorough tier (harness/cg.py): same strategies and check functions, choices from libFuzzer"""
    return [{"seed": seed * 1000 + 900 + k, "n": 0, "depth": 4, "cg": {"runs": 6000}} for k in range(4)]
