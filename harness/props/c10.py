"""C10 - bound callables get every argument converted per its own parameter.

Exhaustive part: all 32 presence combinations of the five parameter kinds (one parameter per
present kind, pairwise-distinguishable annotations int/float/Decimal/Fraction/str), with and
without defaults, x five callable flavours (function, bound method, hashable callable instance,
class through wrap, function behind a functools.wraps decorator) x every candidate call (0..4 positional numerals x every subset of the
keyword names {po, pk, ko, x1, x2}); `inspect.Signature.bind` decides which candidates Python
accepts. Random part: Hypothesis signatures with up to 5 parameters, several per kind,
unannotated parameters and defaults.

Oracle: reference = Signature.bind + per-parameter typelib.unmarshal(annotation, argument)
(top-level call), unannotated untouched, variadics element-wise; the callable records what it
received. Rejected by Signature.bind => TypeError. wrap preserves metadata.
"""

from __future__ import annotations

import decimal
import enum
import fractions
import inspect
import itertools

from harness import core, tl
from harness.core import st
from harness.oracles import snapshot

ID = "C10"
RULE = ("exhaustive kind-presence table x defaults x 5 callable flavours x all candidate calls, plus random "
        "multi-parameter signatures; non-trivial = an accepted call that passes a positional-or-keyword "
        "parameter by keyword, uses extra *args/**kwargs, or omits a default; distinct by "
        "(signature text, flavour, api, args, kwargs)")
ASSUMPTIONS = ["arguments are numerals every annotation in the pool converts, so conversion itself never fails",
               "what a callable 'receives' is observed as its bound local parameters"]
TECHNIQUE = "exhaustive enumeration of the 32-row parameter-kind table and call shapes + Hypothesis signatures; differential oracle against inspect.Signature.bind composed with per-parameter unmarshal"
LEVEL_TEXT = ("Complete enumeration of the kind-presence table (the dispatch matrix's whole domain) with every call "
              "shape up to 4 positionals and 5 keyword names, for bind and wrap over five callable flavours, plus "
              "random signatures with several parameters per kind. Exhaustive for the table, exploration beyond it.")
LEVEL_NOTE = "trusts inspect.Signature.bind as the model of which calls Python accepts"
EXHAUSTIVE_NOTE = "32 kind rows x {no defaults, defaults} x {annotation objects, postponed annotation text in another module} x 5 flavours x {bind, wrap} x 160 candidate calls, all enumerated on every run"

bind = tl.typelib.binding.bind
wrap = tl.typelib.binding.wrap

ANN = {"po": "int", "pk": "float", "va": "decimal.Decimal", "ko": "fractions.Fraction", "vk": "str"}
class Mode(enum.Enum):
    """an annotation whose own conversion fails with KeyError for an unknown name (a by-name lookup in _missing_)"""
    RED = 1
    BLUE = 2

    @classmethod
    def _missing_(cls, value):
        return cls[value]


NS = {"decimal": decimal, "fractions": fractions, "Mode": Mode}
ANN_FAIL = {"po": "Mode", "pk": "Mode", "va": "Mode", "ko": "Mode", "vk": "str"}
EMPTY = inspect.Parameter.empty


def sig_text(params):
    """params: list of (name, kind, ann|None, default|None) in legal order -> 'a: int, /, b=..'"""
    out = []
    kinds = [k for _, k, _, _ in params]
    for i, (name, kind, ann, default) in enumerate(params):
        s = name
        if kind == "va":
            s = "*" + name
        if kind == "vk":
            s = "**" + name
        if ann:
            s += f": {ann}"
        if default is not None:
            s += f" = {default!r}"
        if kind == "ko" and "va" not in kinds and (i == 0 or kinds[i - 1] != "ko"):
            out.append("*")
        out.append(s)
        if kind == "po" and (i + 1 == len(params) or kinds[i + 1] != "po"):
            out.append("/")
    return ", ".join(out)


# annotations that only the defining module can resolve (names it imported or defined), for modules whose annotations are text
ANN_LOCAL = {"po": "Num", "pk": "float", "va": "Dec", "ko": "Frac", "vk": "Label"}
POSTPONED_HEADER = ("import typing\nfrom decimal import Decimal as Dec\nfrom fractions import Fraction as Frac\n"
                    "Num = int\nLabel = typing.NewType('Label', str)\n")


def make_callables(params, tag, postponed=False):
    """-> {flavour: (callable_for_bind_or_wrap, signature_target, kind)}

    postponed: the callables live in a real module (registered, with a file name) compiled under `from __future__ import
    annotations`; their annotations are text naming things only that module binds, and every call is issued from here -
    another module."""
    text = sig_text(params)
    names = [n for n, _, _, _ in params]
    rec = "{" + ", ".join(f"{n!r}: {n}" for n in names) + "}"
    sep = ", " if text else ""
    # every other signature: the classes to be bound / wrapped also define __call__ (their instances can be called, which makes
    # the class a virtual subclass of collections.abc.Callable); what bind/wrap deal with is the constructor all the same
    call_too = "    def __call__(self, z: int = 0):\n        return z\n" if len(params) % 2 else ""
    src = f'''
def fn({text}):
    """doc of fn"""
    return ("ret", {rec})

import functools as _functools
def _audited(f):
    @_functools.wraps(f)
    def inner(*a, **k):
        r = f(*a, **k)
        return (r[0], dict(r[1], __decorated__=True))
    return inner

@_audited
def dfn({text}):
    """doc of dfn"""
    return ("ret", {rec})

class Meth:
    def m(self{sep}{text}):
        """doc of m"""
        return ("ret", {rec})

class Inst:
    def __call__(self{sep}{text}):
        return ("ret", {rec})

class Cls:
    """doc of Cls"""
    def __init__(self{sep}{text}):
        self.rec = {rec}
{call_too}
class Cls2:
    def __init__(self{sep}{text}):
        self.rec = {rec}
{call_too}
class Raw:
    def __init__(self{sep}{text}):
        self.rec = {rec}
'''
    if postponed:
        import __future__ as _f
        import sys as _sys
        import types as _types
        m = _types.ModuleType(f"c10post_{tag}")
        m.__file__ = f"/nonexistent/{m.__name__}.py"
        _sys.modules[m.__name__] = m
        m.__dict__.update({k: v for k, v in NS.items()})
        exec(compile(POSTPONED_HEADER + src, m.__file__, "exec", flags=_f.annotations.compiler_flag, dont_inherit=True), m.__dict__)  # noqa: S102
        return m.__dict__, text
    ns = dict(NS)
    ns["__name__"] = f"c10mod_{tag}"
    exec(src, ns)  # noqa: S102
    return ns, text


def expected(sig, a, k, raw):
    """Reference outcome: ('TypeError',) | ('ok', {param: converted}) | ('skip',).

    The property's domain is "call shapes accepted by inspect.Signature.bind" plus calls Python
    rejects. Signature.bind and the interpreter disagree on one corner (a positional-only name
    reused as a keyword that lands in **kwargs: Python accepts, Signature.bind rejects); such
    calls are in neither class and are skipped (counted under a label).
    """
    raw_ok = tl.call(raw, *a, **k)
    raw_rejected = raw_ok[0] == "exc" and isinstance(raw_ok[1], TypeError)
    try:
        ba = sig.bind(*a, **k)
    except TypeError:
        return ("TypeError",) if raw_rejected else ("skip",)
    if raw_rejected:
        return ("skip",)
    exp = {}
    try:
        return ("ok", _converted(sig, ba))
    except Exception as e:  # noqa: BLE001 - the annotation's own routine rejects the argument: that is what the caller must see
        return ("raises", e)


def _converted(sig, ba):
    exp = {}
    for name, p in sig.parameters.items():
        if name == "self":
            continue
        conv = (lambda v: v) if p.annotation is EMPTY else (lambda v, t=p.annotation: tl.unmarshal(t, v))
        if name not in ba.arguments:
            if p.kind == p.VAR_POSITIONAL:
                exp[name] = ()
            elif p.kind == p.VAR_KEYWORD:
                exp[name] = {}
            else:
                exp[name] = p.default
            continue
        val = ba.arguments[name]
        if p.kind == p.VAR_POSITIONAL:
            exp[name] = tuple(conv(v) for v in val)
        elif p.kind == p.VAR_KEYWORD:
            exp[name] = {kk: conv(v) for kk, v in val.items()}
        else:
            exp[name] = conv(val)
    return exp


def nontrivial(sig, a, k):
    ps = sig.parameters
    if any(n in ps and ps[n].kind == ps[n].POSITIONAL_OR_KEYWORD for n in k):
        return True
    if any(n not in ps for n in k):
        return True
    npos = sum(1 for p in ps.values() if p.kind in (p.POSITIONAL_ONLY, p.POSITIONAL_OR_KEYWORD))
    if len(a) > npos:
        return True
    try:
        ba = sig.bind(*a, **k)
    except TypeError:
        return False
    return any(p.default is not EMPTY and n not in ba.arguments for n, p in ps.items())


def observe(flavour, api, ns):
    """-> (invoke(a, k) -> ('ok', received) | ('exc', e), signature used by the reference)"""
    if flavour == "function":
        f = ns["fn"]
        target = bind(f) if api == "bind" else wrap(f)
        return (lambda a, k: _ret(tl.call(target, *a, **k))), inspect.signature(f, eval_str=True), f, target
    if flavour == "decorated":
        # a function behind a functools.wraps decorator: the callable to invoke is the decorated one
        f = ns["dfn"]
        target = bind(f) if api == "bind" else wrap(f)

        def inv_d(a, k):
            r = _ret(tl.call(target, *a, **k))
            if r[0] == "ok" and isinstance(r[1], dict):
                rec = dict(r[1])
                if rec.pop("__decorated__", None) is not True:
                    return ("ok", ("decorator-bypassed", repr(r[1])))
                return ("ok", rec)
            return r

        return inv_d, inspect.signature(f, eval_str=True), f, target
    if flavour == "method":
        o = ns["Meth"]()
        f = o.m
        target = bind(f) if api == "bind" else wrap(f)
        return (lambda a, k: _ret(tl.call(target, *a, **k))), inspect.signature(f, eval_str=True), f, target
    if flavour == "instance":
        f = ns["Inst"]()
        target = bind(f) if api == "bind" else wrap(f)
        return (lambda a, k: _ret(tl.call(target, *a, **k))), inspect.signature(f, eval_str=True), f, target
    if flavour == "class":
        if api == "bind":
            c = ns["Cls2"]
            sig = inspect.signature(c, eval_str=True)
            target = bind(c)
        else:
            c = ns["Cls"]
            sig = inspect.signature(c, eval_str=True)  # taken before wrap patches __init__
            target = wrap(c)

        def inv(a, k):
            r = tl.call(target, *a, **k)
            if r[0] == "ok":
                if not isinstance(r[1], c):
                    return ("ok", ("not-an-instance", repr(r[1])))
                return ("ok", r[1].rec)
            return r

        return inv, sig, c, target
    raise AssertionError(flavour)


def _ret(r):
    if r[0] == "ok":
        v = r[1]
        if not (isinstance(v, tuple) and len(v) == 2 and v[0] == "ret"):
            return ("ok", ("return-value-changed", repr(v)))
        return ("ok", v[1])
    return r


def check_calls(params, tag, calls, col, flavours=("function", "method", "instance", "class", "decorated"), source="table", postponed=False):
    ns, text = make_callables(params, tag, postponed)
    try:
        _check_calls(params, ns, text, calls, col, flavours, postponed)
    finally:
        if postponed:
            import sys as _sys
            _sys.modules.pop(ns["__name__"], None)


def _check_calls(params, ns, text, calls, col, flavours, postponed):
    for flavour in flavours:
        for api in ("bind", "wrap"):
            tl.clear_all()
            raw = {"function": ns["fn"], "method": ns["Meth"]().m, "instance": ns["Inst"](),
                   "class": ns["Raw"], "decorated": ns["fn"]}[flavour]
            try:
                inv, sig, orig, target = observe(flavour, api, ns)
            except Exception as e:  # construction must work for any signature
                col.ev()
                col.violation("construct", {"params": params, "flavour": flavour, "api": api, "args": [], "kwargs": {}, "postponed": postponed},
                              f"{api}({flavour}) raised {tl.exc_name(e)}: {e}", bucket=f"{flavour}|{api}")
                continue
            if api == "wrap":
                check_metadata(flavour, orig, target, params, col)
            # calls whose arguments no annotation of the pool converts (handled failures) come first: what a binding keeps of an
            # attempt that did not finish must not matter to the calls that follow
            for junk_a, junk_k in ((("zz", "zz", "zz"), {}), ((), {"ko": "zz", "pk": "zz"}), (("zz",), {"x1": "zz"})):
                tl.call(target, *junk_a, **junk_k)
            col.label("history:rejected-calls-first")
            for a, k in calls:
                col.ev()
                case = {"params": params, "flavour": flavour, "api": api, "args": list(a), "kwargs": dict(k), "postponed": postponed}
                if postponed:
                    col.label("annotations:postponed-text-resolvable-in-defining-module-only")
                exp = expected(sig, a, k, raw)
                if exp[0] == "skip":
                    col.label("skipped:Signature.bind-and-interpreter-disagree")
                    continue
                got = inv(a, k)
                row = "".join(sorted({kd for _, kd, _, _ in params}))
                col.label(f"flavour:{flavour}")
                if exp[0] == "TypeError" and "Mode" in text and "purple" in (*a, *k.values()):
                    # a call Python rejects AND an argument its annotation rejects: which of the two errors the caller sees is
                    # not stated
                    col.label("skipped:rejected-call-with-unconvertible-argument")
                    continue
                if exp[0] == "TypeError":
                    col.label("rejected-by-python")
                    if not (got[0] == "exc" and isinstance(got[1], TypeError)):
                        col.violation("rejected-call-raises-TypeError", case,
                                      f"def f({text}) called with {a} {k}: got {_d(got)}",
                                      bucket=f"{row}")
                    continue
                if exp[0] == "raises":
                    col.label("conversion-fails")
                    col.nt(repr((text, flavour, api, a, sorted(k.items()))))
                    if not (got[0] == "exc" and type(got[1]) is type(exp[1])):
                        col.violation("conversion-failure-propagates", case,
                                      f"def f({text}) called with {a} {k}: unmarshal(annotation, argument) raises {tl.exc_name(exp[1])}, the bound call {_d(got)}",
                                      bucket=f"{row}")
                    continue
                col.label("accepted-by-python")
                if nontrivial(sig, a, k):
                    col.nt(repr((text, flavour, api, a, sorted(k.items()))))
                    col.sample({"def": f"f({text})", "flavour": flavour, "api": api, "args": list(a), "kwargs": dict(k)})
                if got[0] == "exc":
                    col.violation("accepted-call-succeeds", case,
                                  f"def f({text}) called with {a} {k}: raised {tl.exc_name(got[1])}: {got[1]}",
                                  bucket=f"{row}")
                elif snapshot(got[1]) != snapshot(exp[1]):
                    col.violation("converted-per-parameter", case,
                                  f"def f({text}) called with {a} {k}: received {got[1]!r}, expected {exp[1]!r}",
                                  bucket=f"{row}")


def _d(got):
    return f"raised {tl.exc_name(got[1])}" if got[0] == "exc" else f"returned {got[1]!r}"


def check_metadata(flavour, orig, target, params, col):
    col.ev()
    case = {"params": params, "flavour": flavour, "api": "wrap", "args": [], "kwargs": {}, "metadata": True}
    if flavour == "class":
        if target is not orig:
            col.violation("wrap-metadata", case, "wrap(class) did not return the class itself")
        return
    for attr in ("__name__", "__qualname__", "__doc__", "__module__"):
        if hasattr(orig, attr) and getattr(target, attr, "<missing>") != getattr(orig, attr):
            col.violation("wrap-metadata", case, f"{attr}: {getattr(target, attr, None)!r} != {getattr(orig, attr)!r}",
                          bucket=attr)
    if getattr(target, "__wrapped__", None) != orig:
        col.violation("wrap-metadata", case, "__wrapped__ is not the original callable", bucket="__wrapped__")


KINDS = ["po", "pk", "va", "ko", "vk"]


def table_rows(ann=None):
    ann = ann or ANN
    for mask in itertools.product([False, True], repeat=5):
        present = [k for k, m in zip(KINDS, mask) if m]
        for defaults in (False, True):
            params = []
            for k in present:
                d = f"d_{k}" if (defaults and k in ("po", "pk", "ko")) else None
                params.append((k, k, ann[k], d))
            yield params


def candidate_calls():
    names = ["po", "pk", "ko", "x1", "x2"]
    out = []
    for n in range(5):
        a = tuple(str(10 + i) for i in range(n))
        for r in range(len(names) + 1):
            for sub in itertools.combinations(names, r):
                out.append((a, {nm: str(21 + names.index(nm)) for nm in sub}))
    return out


def failing_calls():
    """the candidate calls with valid member names everywhere but at ONE argument"""
    out = []
    for a, k in candidate_calls():
        if len(a) + len(k) > 4:
            continue
        slots = [("a", i) for i in range(len(a))] + [("k", n) for n in k]
        for kind, where in slots:
            a2 = tuple("purple" if (kind, i) == ("a", where) else "RED" for i in range(len(a)))
            k2 = {n: ("purple" if (kind, n) == ("k", where) else "RED") for n in k}
            out.append((a2, k2))
        out.append((tuple("RED" for _ in a), {n: "BLUE" for n in k}))
    return out


# ---- random signatures ------------------------------------------------------------------

ANN_POOL = ["int", "float", "decimal.Decimal", "fractions.Fraction", "str", None]


@st.composite
def random_case(draw):
    n = draw(st.integers(0, 5))
    kinds = sorted((draw(st.sampled_from(KINDS)) for _ in range(n)), key=KINDS.index)
    # at most one *args and one **kwargs
    seen = set()
    ks = []
    for k in kinds:
        if k in ("va", "vk"):
            if k in seen:
                k = "pk" if k == "va" else "ko"
            seen.add(k)
        ks.append(k)
    ks.sort(key=KINDS.index)
    npos = sum(1 for k in ks if k in ("po", "pk"))
    first_default = draw(st.integers(0, npos))
    params = []
    ipos = 0
    for i, k in enumerate(ks):
        ann = draw(st.sampled_from(ANN_POOL))
        d = None
        if k in ("po", "pk"):
            if ipos >= first_default:
                d = f"d{i}"
            ipos += 1
        elif k == "ko" and draw(st.booleans()):
            d = f"d{i}"
        params.append((f"p{i}", k, ann, d))
    calls = []
    for _ in range(draw(st.integers(1, 8))):
        na = draw(st.integers(0, 6))
        a = tuple(draw(st.sampled_from(["7", "12", "300", 5])) for _ in range(na))
        knames = draw(st.lists(st.sampled_from([p[0] for p in params] + ["x1", "x2"]), unique=True, max_size=5))
        calls.append((a, {nm: draw(st.sampled_from(["8", "44", 9])) for nm in knames}))
    flavour = draw(st.sampled_from(["function", "method", "instance", "class", "decorated"]))
    return params, calls, flavour


# ---- class hierarchies: every class's own constructor is the callable that gets converted arguments ----------
HIER_SRC = '''
import decimal
class Base:
    def __init__(self, a: float):
        self.got = (a,)
class Child(Base):
    def __init__(self, a: float, b: int, c: str = "x"):
        super().__init__(a)
        self.got = (a, b, c)
class Heir(Base):
    pass
class GrandChild(Child):
    def __init__(self, d: decimal.Decimal, *rest: int):
        super().__init__(1.0, 2)
        self.got = (d, rest)
'''
HIER_CALLS = {"Base": (("2",), (2.0,)), "Child": (("1.5", "2", 3), (1.5, 2, "3")), "Heir": (("3",), (3.0,)),
              "GrandChild": (("1.5", "7", "8"), "DEC")}


def check_class_histories(col):
    import decimal
    import types as _types

    names = list(HIER_CALLS)
    orders = [o for k in (1, 2, 3, 4) for o in itertools.permutations(names, k)]
    orders += [(a, a) for a in names] + [(a, b, a) for a in names for b in names if a != b]
    for api in ("wrap", "bind"):
        for order in orders:
            m = _types.ModuleType("c10_hier")
            exec(HIER_SRC, m.__dict__)  # noqa: S102
            tl.clear_all()
            made = {}
            for n in order:
                k, r = tl.call(bind if api == "bind" else wrap, getattr(m, n))
                made[n] = (k, r)
            for n in dict.fromkeys(order):
                col.ev()
                col.nt(f"hier|{api}|{order}|{n}")
                col.label("class-hierarchy-history")
                k, f = made[n]
                case = {"hierarchy": True, "api": api, "order": list(order), "cls": n}
                if k == "exc":
                    col.violation("converted-per-parameter", case, f"{api}({n}) after {order} raised {tl.exc_name(f)}: {f}", bucket=f"hier|{api}|raises")
                    continue
                args, want = HIER_CALLS[n]
                if want == "DEC":
                    want = (decimal.Decimal("1.5"), (7, 8))
                k2, obj = tl.call(f, *args)
                got = getattr(obj, "got", None) if k2 == "ok" else None
                if k2 == "exc" or snapshot(got) != snapshot(want):
                    col.violation("converted-per-parameter", case,
                                  f"{api} applied in the order {order}: {n}{args!r} gave its constructor {got!r}{'' if k2 == 'ok' else ' (raised ' + tl.exc_name(obj) + ')'}, expected {want!r}",
                                  bucket=f"hier|{api}|{n}")
    col.exhaustive_done = True


# ---- runner interface ----------------------------------------------------------------------

def plan(tier, seed):
    rows = list(table_rows())
    shards = [{"kind": "table", "lo": i, "hi": i + 8} for i in range(0, len(rows), 8)]
    shards += [{"kind": "table", "lo": i, "hi": i + 8, "postponed": True} for i in range(0, len(rows), 8)]
    n = 600 if tier == "quick" else 3000
    for k in range(8):
        shards.append({"kind": "random", "seed": seed * 1000 + k, "n": n})
    shards.append({"kind": "hierarchies"})
    shards += [{"kind": "table", "lo": i, "hi": i + 8, "failing": True} for i in range(0, len(rows), 8)]
    return shards


def run_shard(shard, col):
    if shard["kind"] == "hierarchies":
        check_class_histories(col)
        return
    if shard["kind"] == "table":
        post = bool(shard.get("postponed"))
        failing = bool(shard.get("failing"))
        rows = list(table_rows(ANN_LOCAL if post else ANN_FAIL if failing else None))[shard["lo"]:shard["hi"]]
        calls = failing_calls() if failing else candidate_calls()
        for i, params in enumerate(rows):
            if failing:
                check_calls(params, f"f{shard['lo'] + i}", calls, col, flavours=("function", "method", "class"))
                continue
            check_calls(params, f"t{shard['lo'] + i}", calls, col, postponed=post)
        col.exhaustive_done = True
        return
    counter = itertools.count()

    def one(c):
        params, calls, flavour = c
        check_calls(params, f"r{shard['seed']}_{next(counter)}", calls, col, flavours=(flavour,), source="random")

    core.drive(random_case(), one, n=shard["n"], seed=shard["seed"], col=col)


def replay(clause, case, col):
    if case.get("hierarchy"):
        check_class_histories(col)
        return
    params = [tuple(p) for p in case["params"]]
    if case.get("metadata"):
        calls = []
    else:
        calls = [(tuple(case["args"]), dict(case["kwargs"]))]
    # restrict to the recorded flavour; both apis are cheap, run the recorded one first
    check_calls(params, "replay", calls, col, flavours=(case["flavour"],), source="replay", postponed=bool(case.get("postponed")))


def cg_plan(seed):
    """coverage-guided shards of the thorough tier (harness/cg.py): same strategies and check functions, choices from libFuzzer"""
    return [{"kind": "random", "seed": seed * 1000 + 900 + k, "n": 0, "cg": {"runs": 30000}} for k in range(4)]
