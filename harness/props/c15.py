"""C15 - every valid annotation yields working routines.

Domain : the constructor grammar of U extended with typing.Any, object, bare list/dict/tuple/set,
         unparameterised typing.List etc., TypeVars (free, bound, constrained), Callable in three
         spellings, type / type[X], user Generic[T] classes (bare and parameterised), classes without
         hints. Exhaustive to depth 2 (every unary constructor x every leaf, every binary constructor x
         every pair of leaves), sampled at depth 3.
Oracle : marshaller(T), unmarshaller(T), codec(T) are built without exception within a watchdog; building
         again (cache hit) and again after clearing every cache gives routines that behave alike on a
         fixed battery of inputs (equal outcome snapshots); positions whose member type cannot be
         resolved (Any, object, free TypeVar, Callable) hand back the *identical* member object.
"""

from __future__ import annotations

import itertools
import re
import sys
import types
import typing
import zlib

from harness import core, tl
from harness.core import st
from harness.oracles import exc_bucket, snapshot

ID = "C15"
RULE = ("all annotations of depth <= 2 over 56 leaves x 17 unary and 5 binary constructors (exhaustive) plus sampled depth-3 "
        "annotations; non-trivial = an extended constructor (Any, object, bare/unparameterised generic, TypeVar, Callable, "
        "type[..], user Generic, hint-less class) occurs below the root; distinct by annotation expression")
ASSUMPTIONS = ["annotations that Python itself refuses to construct are skipped (counted)",
               "'behaves alike' is judged on a fixed battery of 25 inputs per routine"]
TECHNIQUE = "exhaustive enumeration of the annotation grammar to depth 2 + Hypothesis sampling at depth 3; totality oracle under watchdog, repeatability (three builds) and pass-through identity checks"
LEVEL_TEXT = ("Complete enumeration of the extended constructor grammar to depth 2 (about 9 000 annotations) with construction "
              "of all three routine kinds under a watchdog, a repeat after a cache hit and after clearing all caches, a behavioural "
              "battery, and identity checks for pass-through members; depth 3 sampled.")
LEVEL_NOTE = "trusts the watchdog (20 s, typical build 2 ms) as the meaning of 'terminates'"
EXHAUSTIVE_NOTE = "depth <= 2: 56 leaves, 17 unary x 56 + 5 binary x 56 x 56 annotations, complete on every run"

MOD = "c15_types_mod"
SRC = '''
import collections, collections.abc, dataclasses, datetime, decimal, enum, pathlib, re, typing, uuid
from typing import *
T = TypeVar("T")
TB = TypeVar("TB", bound=int)
TC = TypeVar("TC", int, str)
class G(Generic[T]):
    def __init__(self, x: T = None):
        self.x = x
    def __eq__(self, o):
        return type(o) is type(self) and o.x == self.x
class NoHints:
    pass
class NoHintsInit:
    def __init__(self, a=1, b=2):
        self.a, self.b = a, b
    def __eq__(self, o):
        return type(o) is type(self) and vars(o) == vars(self)
class NoHintsChild(NoHintsInit):
    """declares nothing itself: its members are those of the constructor it inherits"""
    def total(self):
        return self.a
class NoHintsDefaults:
    def __init__(self, name, retries=3, label="", ratio=0.5, flags=(), when=None):
        self.name, self.retries, self.label, self.ratio, self.flags, self.when = name, retries, label, ratio, flags, when
    def __eq__(self, o):
        return type(o) is type(self) and vars(o) == vars(self)
@dataclasses.dataclass
class DC:
    a: int
    b: str = "x"
class E(enum.Enum):
    A = 1
class NT(NamedTuple):
    p: int
    q: str = "q"
class TD(TypedDict):
    k: int
class SelfSet:
    """annotated attributes, one of which the class assigns on its own (no constructor parameter for it)"""
    value: int
    meta: Any
    def __init__(self, value: int = 0):
        self.value = value
        self.meta = {"made": value}
    def __eq__(self, o):
        return type(o) is type(self) and vars(o) == vars(self)
    def __repr__(self):
        return f"SelfSet({self.value!r})"
@dataclasses.dataclass
class DCNoInit:
    a: int = 0
    made: list = dataclasses.field(default_factory=list, init=False)
class Sparse:
    """no hints; one of its attributes is only set when a value is given"""
    def __init__(self, a=1, b=None):
        self.a = a
        if b is not None:
            self.b = b
    def __eq__(self, o):
        return type(o) is type(self) and vars(o) == vars(self)
    def __repr__(self):
        return f"Sparse({vars(self)!r})"
@dataclasses.dataclass
class CallDC:
    """data whose instances can be called: a virtual subclass of collections.abc.Callable"""
    a: int = 0
    def __call__(self, *args):
        return args
class CallPlain:
    a: int
    def __init__(self, a: int = 0):
        self.a = a
    def __call__(self):
        return self.a
    def __eq__(self, o):
        return type(o) is type(self) and o.a == self.a
    def __repr__(self):
        return f"CallPlain({self.a!r})"
class CallNT(NamedTuple):
    p: int = 0
    def __call__(self):
        return self.p
class Sentinel:
    def __repr__(self):
        return "<sentinel>"
# wrapped spellings of types that have no children in the type graph
AL_NoHints = TypeAliasType("AL_NoHints", NoHints)
AL_listAny = TypeAliasType("AL_listAny", list[Any])
AL_Lit = TypeAliasType("AL_Lit", Literal[1, 'a'])
TBN = TypeVar("TBN", bound=NoHints)
NT_NoHints = NewType("NT_NoHints", NoHints)
'''

LEAVES = ["int", "str", "float", "bool", "bytes", "decimal.Decimal", "datetime.datetime", "datetime.date", "uuid.UUID",
          "pathlib.Path", "re.Pattern", "None", "Any", "object", "list", "dict", "tuple", "set", "frozenset",
          "typing.List", "typing.Dict", "typing.Tuple", "typing.Set", "typing.Sequence", "typing.Mapping", "T", "TB", "TC",
          "typing.Callable", "typing.Callable[..., int]", "typing.Callable[[int], str]", "collections.abc.Callable[[int], str]",
          "type", "type[int]", "typing.Type[DC]", "G", "G[int]", "NoHints", "NoHintsInit", "NoHintsChild", "NoHintsDefaults", "DC", "E", "NT", "TD",
          "typing.Literal[1, 'a']", "typing.Iterable", "collections.deque", "SelfSet", "DCNoInit", "Sparse", "AL_NoHints", "AL_listAny", "AL_Lit", "TBN", "NT_NoHints",
          "list[Any]", "CallDC", "CallPlain", "CallNT", "typing.Iterator", "collections.abc.Iterator", "typing.Generator"]
EXTENDED = {"Any", "object", "list", "dict", "tuple", "set", "frozenset", "typing.List", "typing.Dict", "typing.Tuple",
            "typing.Set", "typing.Sequence", "typing.Mapping", "T", "TB", "TC", "typing.Callable", "typing.Callable[..., int]",
            "typing.Callable[[int], str]", "collections.abc.Callable[[int], str]", "type", "type[int]", "typing.Type[DC]", "G",
            "G[int]", "NoHints", "NoHintsInit", "NoHintsChild", "NoHintsDefaults", "typing.Iterable", "collections.deque", "SelfSet", "DCNoInit", "Sparse", "AL_NoHints", "AL_listAny", "AL_Lit", "TBN",
            "NT_NoHints", "list[Any]", "typing.Iterator", "collections.abc.Iterator", "typing.Generator"}
# classes without any annotation: the parameters of __init__ are their (unresolvable) members
HINTLESS = {"NoHintsInit": ["a", "b"], "NoHintsChild": ["a", "b"], "NoHintsDefaults": ["name", "retries", "label", "ratio", "flags", "when"]}
PASSTHROUGH = {"Any", "object", "T", "typing.Callable", "typing.Callable[..., int]", "typing.Callable[[int], str]",
               "collections.abc.Callable[[int], str]",
               # class objects have no data to convert either
               "type", "type[int]", "typing.Type[DC]"}
UNARY = {
    "list": "list[{0}]", "tuple...": "tuple[{0}, ...]", "dictval": "dict[str, {0}]", "Optional": "typing.Optional[{0}]",
    "typing.List": "typing.List[{0}]", "Sequence": "typing.Sequence[{0}]", "Mapping": "typing.Mapping[str, {0}]",
    "deque": "collections.deque[{0}]", "set": "set[{0}]", "frozenset": "frozenset[{0}]", "Final": "typing.Final[{0}]",
    "ClassVar": "typing.ClassVar[{0}]", "tuple1": "tuple[{0}]", "G": "G[{0}]", "Iterable": "typing.Iterable[{0}]",
    "newtype": "NEWTYPE({0})", "field": "FIELD({0})",
}
BINARY = {"tuple2": "tuple[{0}, {1}]", "Union": "typing.Union[{0}, {1}]", "dict": "dict[{0}, {1}]", "pipe": "({0}) | ({1})",
          "fields2": "FIELD2({0}, {1})"}

_BARE_TYPING = re.compile(r"typing\.(Tuple|List|Dict|Set)(?![\[\w])")
_NS = None
_counter = itertools.count()


def ns():
    global _NS
    if _NS is None:
        m = types.ModuleType(MOD)
        sys.modules[MOD] = m
        exec(SRC, m.__dict__)  # noqa: S102
        _NS = m.__dict__
    return _NS


def build(expr):
    """evaluate an annotation expression (NEWTYPE(..)/FIELD(..) are harness macros) -> object or raises"""
    n = ns()
    local = dict(n)

    def NEWTYPE(t):
        return typing.NewType(f"NTw{next(_counter)}", t)

    def FIELD(t):
        name = f"Holder{next(_counter)}"
        cls = types.new_class(name, (), {}, lambda d: d.update({"__annotations__": {"x": t, "y": int}, "__module__": MOD,
                                                                  "__init__": _holder_init, "__eq__": _holder_eq}))
        n[name] = cls
        return cls

    def FIELD2(a, b):
        name = f"Holder{next(_counter)}"
        cls = types.new_class(name, (), {}, lambda d: d.update({"__annotations__": {"x": a, "y": b}, "__module__": MOD,
                                                                  "__init__": _holder_init, "__eq__": _holder_eq}))
        n[name] = cls
        return cls

    local.update(NEWTYPE=NEWTYPE, FIELD=FIELD, FIELD2=FIELD2)
    return eval(expr, local)  # noqa: S307


def _holder_init(self, x=None, y=0):
    self.x, self.y = x, y


def _holder_eq(self, o):
    return type(o) is type(self) and o.x == self.x and o.y == self.y


BATTERY_SRC = ["1", "'1'", "'a'", "None", "[1, '2']", "{'a': 1}", "(1, 2)", "1.5", "b'x'", "SENT", "{'x': 1, 'y': 2}", "[]",
               # instances of the classes that set an annotated attribute themselves, bare and inside the usual containers
               "SelfSet(3)", "[SelfSet(3)]", "{'a': SelfSet(3)}", "DCNoInit(1)", "[DCNoInit(1)]", "{'value': '4'}", "{'a': '5'}",
               # the same complete object before and after one that lacks an attribute: equal inputs, equal outcomes
               "Sparse(1, 2)", "[Sparse(1, 2)]", "Sparse(1)", "[Sparse(1)]", "Sparse(1, 2)", "[Sparse(1, 2)]",
               "CallDC(1)", "[CallPlain(2)]", "CallNT(3)"]


def battery(T):
    n = ns()
    sent = n["Sentinel"]()
    out = []
    km, mr = tl.call(tl.marshaller, T)
    ku, ur = tl.call(tl.unmarshaller, T)
    kc, cd = tl.call(tl.codec, T)
    for src in BATTERY_SRC:
        x = sent if src == "SENT" else eval(src, dict(n))  # noqa: S307
        for name, k, r in (("marshal", km, mr), ("unmarshal", ku, ur)):
            if k == "exc":
                out.append((name, src, "unbuilt"))
                continue
            kk, v = tl.call(r, x)
            out.append((name, src, ("exc", tl.exc_name(v)) if kk == "exc" else ("ok", snapshot(v))))
        if kc == "ok":
            kk, b = tl.call(cd.encode, x)
            if kk == "ok" and not isinstance(b, (bytes, bytearray, memoryview)):
                out.append(("codec-wire", src, ("not-bytes", type(b).__name__)))   # what a codec writes is bytes, whatever T is
            if kk == "ok":
                k2, v2 = tl.call(cd.decode, b)
                out.append(("codec", src, ("exc", tl.exc_name(v2)) if k2 == "exc" else ("ok", snapshot(v2))))
            else:
                out.append(("codec", src, ("exc", tl.exc_name(b))))
    return out


_DYN = re.compile(r"Holder\d+|NTw\d+| at 0x[0-9a-f]+")


def _norm(b):
    return _DYN.sub("#", repr(b))


def cold_battery(expr):
    """the same battery in a process that has built no routine yet (harness.cold)"""
    T = build(expr)
    return _norm(battery(T))


def _swap(x, old, new):
    """the same shape with the opaque members replaced"""
    m = dict(zip(map(id, old), new))
    if isinstance(x, list):
        return [m.get(id(y), y) for y in x]
    if isinstance(x, dict):
        return {k: m.get(id(y), y) for k, y in x.items()}
    return m.get(id(x), x)


def check_annotation(expr, col, passthrough=None, nontrivial=False, source="exhaustive", oracle=None):
    case = {"expr": expr}
    try:
        T = build(expr)
        hash(T)
    except Exception as e:  # Python itself rejects the annotation (or it is unhashable for Python)
        col.label("python-rejects-annotation:" + type(e).__name__)
        return
    col.ev()
    col.label("source:" + source)
    if nontrivial:
        col.nt(expr)
    tl.clear_all()
    try:
        with core.watchdog(20):
            # the three kinds in an order that depends on the annotation (the cold process always builds marshaller,
            # unmarshaller, codec): which routine of a type is built first must not matter
            kinds = [("marshaller", tl.marshaller), ("unmarshaller", tl.unmarshaller), ("codec", tl.codec)]
            rot = zlib.crc32(expr.encode()) % 3
            kinds = kinds[rot:] + kinds[:rot]
            col.label(f"first-built:{kinds[0][0]}")
            built = {name: tl.call(f, T) for name, f in kinds}
    except core.WatchdogTimeout:
        col.violation("construction-terminates", case, f"routines for {expr} did not build within 20 s")
        return
    failed = False
    for name, (k, r) in built.items():
        if k == "exc":
            failed = True
            col.violation("construction-succeeds", case, f"{name}({expr}) raised {tl.exc_name(r)}: {r}",
                          bucket=f"{name}|{exc_bucket(r)}")
    if failed:
        return
    b1 = battery(T)
    rec = [x for x in b1 if isinstance(x[2], tuple) and x[2][0] == "exc" and x[2][1].endswith("RecursionError")]
    if rec:
        col.violation("no-unbounded-recursion", case, f"{expr}: {rec[0][0]}({rec[0][1]}) raised RecursionError", bucket=rec[0][0])
    if oracle is not None:
        # building after other annotations were built in this process must behave like building first in a fresh one
        want = oracle.query(expr)
        col.label("compared-with-cold-process")
        if isinstance(want, tuple) and want and want[0] == "harness-error":
            col.label("harness:cold-oracle-error")
        elif _norm(b1) != want:
            col.violation("repeatable", case, f"{expr}: behaviour after earlier builds in this process differs from a fresh process: {_first_diff(_norm(b1), want)}",
                          bucket="vs-cold-process")
    # one input given twice in a battery: the same outcome both times, whatever came in between
    firsts = {}
    for name_, src_, out_ in b1:
        prev = firsts.setdefault((name_, src_), out_)
        if prev != out_:
            col.violation("repeatable", case, f"{expr}: {name_}({src_}) gave {prev!r:.100} and, later in the same battery, {out_!r:.100}", bucket="same-input-twice")
            break
    nb = next((x for x in b1 if x[0] == "codec-wire"), None)
    if nb and "bytes" not in expr:   # (a bytes-like T is its own wire format: what it writes for a value that is no bytes is not judged)
        col.violation("construction-succeeds", case, f"codec({expr}).encode({nb[1]}) returned a {nb[2][1]}, not bytes", bucket="codec-wire-not-bytes")
    b2 = battery(T)  # cache hit
    tl.clear_all()
    b3 = battery(T)
    if b1 != b2 or b1 != b3:
        which = "cached" if b1 != b2 else "after-clear"
        d = next((x, y) for x, y in zip(b1, b2 if b1 != b2 else b3) if x != y)
        col.violation("repeatable", case, f"{expr}: first build vs {which} build differ on {d[0][:2]}: {d[0][2]!r:.80} vs {d[1][2]!r:.80}", bucket=which)
    # pass-through identity
    if passthrough:
        ctor = passthrough
        n = ns()
        o1, o2 = n["Sentinel"](), n["Sentinel"]()
        shapes = {
            "list": ([o1, o2], lambda r: list(r)), "tuple...": ([o1, o2], lambda r: list(r)), "typing.List": ([o1, o2], lambda r: list(r)),
            "Sequence": ([o1, o2], lambda r: list(r)), "deque": ([o1, o2], lambda r: list(r)), "Iterable": ([o1, o2], lambda r: list(r)),
            "dictval": ({"a": o1, "b": o2}, lambda r: [r["a"], r["b"]]), "Mapping": ({"a": o1, "b": o2}, lambda r: [r["a"], r["b"]]),
            "Optional": (o1, lambda r: [r]), "tuple1": ([o1], lambda r: list(r)), "Final": (o1, lambda r: [r]), "ClassVar": (o1, lambda r: [r]),
            "newtype": (o1, lambda r: [r]), "field": ({"x": o1, "y": 3}, lambda r: [r.x]),
        }
        # the same with bytes-like objects as the opaque members: text-like inputs are exactly what a routine is tempted to decode
        for probe in ("objects", "bytes-like") if ctor in shapes else ():
            if probe == "bytes-like":
                o1, o2 = bytes(b"abc"), bytearray(b"1")
                shapes = {k_: (_swap(v_[0], shapes_objs, (o1, o2)), v_[1]) for k_, v_ in shapes.items()}
            else:
                shapes_objs = (o1, o2)
            x, members = shapes[ctor]
            want = [o1, o2] if isinstance(x, (list, dict)) and ctor not in ("tuple1", "field") else [o1]
            for direction in ("unmarshal", "marshal"):
                if direction == "marshal" and ctor == "field":
                    xx = T(x=o1, y=3)
                    mem = lambda r: [r["x"]]  # noqa: E731
                else:
                    xx, mem = x, members
                col.ev()
                col.label("pass-through-checked")
                k, r = tl.call(tl.unmarshal, T, xx) if direction == "unmarshal" else tl.call(tl.marshal, xx, t=T)
                if k == "exc":
                    col.violation("pass-through", dict(case, direction=direction), f"{direction}({expr}, {xx!r:.60}) raised {tl.exc_name(r)}: {r}",
                                  bucket=f"{ctor}|{direction}|raises")
                    continue
                try:
                    got = mem(r)
                except Exception as e:  # noqa: BLE001
                    col.violation("pass-through", dict(case, direction=direction), f"{direction}({expr}) returned {r!r:.80}: {e!r}", bucket=f"{ctor}|{direction}|shape")
                    continue
                if len(got) != len(want) or any(g is not w for g, w in zip(got, want)):
                    col.violation("pass-through", dict(case, direction=direction), f"{direction}({expr}, {xx!r:.60}) = {r!r:.80}: members are not the identical objects",
                                  bucket=f"{ctor}|{direction}|identity")
    # members of hint-less classes are positions whose type cannot be resolved: identical objects in, identical objects out
    hl = next((h for h in HINTLESS if expr == h or expr in (f"list[{h}]", f"dict[str, {h}]", f"typing.Optional[{h}]")), None)
    if hl:
        n = ns()
        fields = HINTLESS[hl]
        objs = [n["Sentinel"]() for _ in fields]
        wrap_in = (lambda z: [z]) if expr.startswith("list[") else (lambda z: {"k": z}) if expr.startswith("dict[") else (lambda z: z)
        unwrap_out = (lambda r: r[0]) if expr.startswith("list[") else (lambda r: r["k"]) if expr.startswith("dict[") else (lambda r: r)
        for direction in ("unmarshal", "marshal"):
            col.ev()
            col.label("pass-through-checked")
            if direction == "unmarshal":
                k, r = tl.call(tl.unmarshal, T, wrap_in(dict(zip(fields, objs))))
                read = lambda r: [getattr(unwrap_out(r), f) for f in fields]  # noqa: E731
            else:
                k, r = tl.call(tl.marshal, wrap_in(n[hl](*objs)), t=T)
                read = lambda r: [unwrap_out(r)[f] for f in fields]  # noqa: E731
            if k == "exc":
                col.violation("pass-through", dict(case, direction=direction), f"{direction}({expr}) of unresolvable members raised {tl.exc_name(r)}: {r}",
                              bucket=f"hintless|{direction}|raises")
                continue
            try:
                got = read(r)
            except Exception as e:  # noqa: BLE001
                col.violation("pass-through", dict(case, direction=direction), f"{direction}({expr}) returned {r!r:.80}: {e!r}", bucket=f"hintless|{direction}|shape")
                continue
            if any(g is not o for g, o in zip(got, objs)):
                col.violation("pass-through", dict(case, direction=direction), f"{direction}({expr}): members of a hint-less class are not the identical objects: {got!r:.120}",
                              bucket=f"hintless|{direction}|identity")
    # the unparameterised typing spelling of a builtin collection is that collection (`typing.Tuple` is `tuple`): same outcomes
    twin = _BARE_TYPING.sub(lambda m_: m_.group(1).lower(), expr)
    if twin != expr and "G[" not in expr and "|" not in expr and "Union[" not in expr:   # (`set | set` is no union at all)   # (an instance of a user generic remembers the alias it was made through: __orig_class__)
        col.ev()
        col.label("spelling-twin-compared")
        try:
            T2 = build(twin)
        except Exception:
            T2 = None
        if T2 is not None:
            tl.clear_all()
            bt = battery(T2)
            tl.clear_all()
            if _norm(bt) != _norm(b3):
                col.violation("spelling-independent", dict(case, twin=twin), f"{expr} vs {twin}: {_first_diff(_norm(b3), _norm(bt))}", bucket="bare-typing-alias")
    if nontrivial and len(col.samples) < core.MAX_SAMPLES and col.evaluations % 211 == 0:
        col.sample({"annotation": expr, "battery_outcomes": [(a, b, c[0] if isinstance(c, tuple) else c) for a, b, c in b1[:6]]})


def _first_diff(a, b):
    i = next((i for i, (x, y) in enumerate(zip(a, b)) if x != y), min(len(a), len(b)))
    return f"...{a[max(0, i - 60):i + 60]!r} vs ...{b[max(0, i - 60):i + 60]!r}"


def exhaustive_annotations():
    for leaf in LEAVES:
        yield leaf, None, False
    for cname, tmpl in UNARY.items():
        for leaf in LEAVES:
            if cname == "newtype" and leaf == "None":
                continue  # NewType's supertype must be a class; None is not
            yield tmpl.format(leaf), (cname if leaf in PASSTHROUGH else None), leaf in EXTENDED
    for cname, tmpl in BINARY.items():
        for a, b in itertools.product(LEAVES, LEAVES):
            yield tmpl.format(a, b), None, (a in EXTENDED or b in EXTENDED)


def plan(tier, seed):
    shards = [{"kind": "exh", "mod": 14, "rem": i} for i in range(14)]
    for i in range(2):
        shards.append({"kind": "depth3", "seed": seed * 1000 + i, "n": 400 if tier == "quick" else 8000})
    return shards


def run_shard(shard, col):
    from harness import cold
    oracle = cold.Cold(cold_battery)  # forked before this worker has built any routine
    try:
        _run_shard(shard, col, oracle)
    finally:
        oracle.close()


def _run_shard(shard, col, oracle):
    if shard["kind"] == "exh":
        for i, (expr, pt, nt) in enumerate(exhaustive_annotations()):
            if i % shard["mod"] == shard["rem"]:
                if col.out_of_time():
                    return
                check_annotation(expr, col, pt, nt, oracle=oracle)
        col.exhaustive_done = True
        return

    @st.composite
    def d3(draw):
        def level(d):
            if d == 0:
                return draw(st.sampled_from(LEAVES))
            if draw(st.integers(0, 3)) == 0:
                tm = draw(st.sampled_from([t for c, t in BINARY.items()]))
                return tm.format(level(d - 1), level(d - 1))
            c = draw(st.sampled_from([c for c in UNARY if c not in ("Final", "ClassVar")]))
            inner = level(d - 1)
            if c == "newtype" and inner == "None":
                inner = "int"
            return UNARY[c].format(inner)
        return level(3)

    core.drive(d3(), lambda e: check_annotation(e, col, None, True, "depth3", oracle=oracle), n=shard["n"], seed=shard["seed"], col=col)
    col.exhaustive_done = True


def replay(clause, case, col):
    expr = case["expr"]
    pt = None
    for cname, tmpl in UNARY.items():
        for leaf in PASSTHROUGH:
            if tmpl.format(leaf) == expr:
                pt = cname
    check_annotation(expr, col, pt, True, "replay")
