"""C09 - graph.static_order is a complete dependency order with every cycle cut.

Domain : (a) annotations of U (random programs); (b) class-graph topologies: all cyclic digraphs on 1-2
         classes with out-degree <= 2 (exhaustive), DAGs with sharing on 2 classes (exhaustive), 3-4 class
         graphs sampled, classes nested in classes, same-named classes in two modules; each class as
         root and inside list / dict / Optional / tuple[.., ...]. Input forms: the type, its qualified
         name as a string, a ForwardRef, a NewType of it, a value alias of it, a second (memoised) call.
Oracle : an invariant checker that derives 'direct members' from the Python runtime (typing.get_args,
         typing.get_type_hints / dataclasses.fields), not from graph._level:
         1 terminates, a sequence, no two equal nodes;            2 last node is the root;
         3 every non-deferred node is preceded by a node for each direct member;
         4 ForwardRef node => cyclic; cyclic => revisit of a type that has its own node or is the root;
         5 every deferred node denotes exactly a member type of the graph (parameters included);
         6 a string-valued alias is one node carrying a ForwardRef to its body;
         7 all input forms give the same sequence up to the root label;
         8 after the same module and class names have been defined again (reload), with warm caches, the graph
           of the new class consists of the new classes.
"""

from __future__ import annotations

import dataclasses
import itertools
import collections.abc
import sys
import typing

from harness import core, progs, tl
from harness import topology as tp
from harness import universe as U
from harness.core import st
from harness.oracles import exc_bucket

ID = "C09"
RULE = ("random programs of U plus enumerated class-graph topologies x roots x embeddings x 6 input forms; non-trivial "
        "= the graph has sharing (a member type reached twice), a cycle, nesting or two modules; distinct by (program "
        "source, root expression, input form)")
ASSUMPTIONS = ["'direct members' = typing.get_args minus Ellipsis for generics/unions, declared fields for structured classes, nothing for Literal and scalars",
               "a deferred node 'denotes' what typing.ForwardRef evaluates to in its own module"]
TECHNIQUE = "exhaustive enumeration of small class-graph topologies + Hypothesis programs; invariant-checking oracle over the returned node sequence with member sets taken from the Python runtime; metamorphic check across input forms"
LEVEL_TEXT = ("All cyclic 1- and 2-class topologies and 2-class DAGs (out-degree <= 2), every root and five embeddings, plus "
              "sampled larger graphs, nested classes, same-named classes and random annotations of U; seven invariants are "
              "checked on every returned sequence and across six input forms.")
LEVEL_NOTE = "trusts typing.get_args / get_type_hints / ForwardRef evaluation as the definition of membership and denotation"
EXHAUSTIVE_NOTE = "cyclic topologies on 1 and 2 classes (20 + 2950) and 2-class DAG topologies, x every root x 5 embeddings, complete on every run"

graph = tl.graph
FR = typing.ForwardRef


def py_unwrap(t):
    """NewType / TypeAliasType / Final / ClassVar stripped, by the Python runtime's own attributes."""
    for _ in range(50):
        if hasattr(t, "__supertype__"):
            t = t.__supertype__
        elif isinstance(t, typing.TypeAliasType):
            v = t.__value__
            if isinstance(v, str):
                return FR(v, module=t.__module__)
            t = v
        elif typing.get_origin(t) in (typing.Final, typing.ClassVar):
            t = typing.get_args(t)[0]
        else:
            return t
    return t


def direct_members(u):
    if isinstance(u, FR):
        return []
    if typing.get_origin(u) is typing.Literal:
        return []
    args = [a for a in typing.get_args(u) if a is not Ellipsis]
    if args:
        return args
    if isinstance(u, type) and getattr(u, "__module__", "").startswith(("vu", "c09")):
        if issubclass(u, __import__("enum").Enum):
            return []
        try:
            hints = typing.get_type_hints(u)
        except Exception:
            return []
        if dataclasses.is_dataclass(u):
            names = [f.name for f in dataclasses.fields(u)]
            return [hints[n] for n in names if n in hints]
        return [h for h in hints.values() if typing.get_origin(h) is not typing.ClassVar]
    return []


def evaluate_ref(ref):
    # a typing.ForwardRef that has been evaluated denotes its stored value (that is what every consumer,
    # typing.get_type_hints included, gets from it); otherwise evaluate it in its own module
    if getattr(ref, "__forward_evaluated__", False):
        return ref.__forward_value__
    mod = sys.modules.get(ref.__forward_module__) if ref.__forward_module__ else None
    return ref._evaluate(dict(vars(mod)) if mod else {}, None, recursive_guard=frozenset())


def is_deferred(n):
    return bool(n.cyclic) or isinstance(n.type, FR) or isinstance(n.unwrapped, FR)


def denoted(n):
    """the type a deferred node stands for (None if it cannot be determined)"""
    if isinstance(n.type, FR):
        try:
            return evaluate_ref(n.type)
        except Exception:
            return None
    return n.type


def check_nodes(nodes, T, col, case, label):
    viol = lambda clause, msg, bucket=None: col.violation(clause, case, f"[{label}] {msg}", bucket=bucket or clause)  # noqa: E731
    if not isinstance(nodes, (list, tuple)):
        viol("1-sequence", f"static_order returned {type(nodes).__name__}")
        return
    # 1 duplicate-free
    for a, b in itertools.combinations(range(len(nodes)), 2):
        if nodes[a] == nodes[b]:
            viol("1-duplicate-free", f"nodes #{a} and #{b} are equal: {nodes[a]!r}")
            break
    if not nodes:
        viol("2-root-last", "empty sequence")
        return
    # 2 root last
    if not (nodes[-1].type == T):
        viol("2-root-last", f"last node is {nodes[-1]!r}, root is {T!r}")
    # 3 members precede
    all_members = []
    for i, n in enumerate(nodes):
        if is_deferred(n):
            continue
        for c in direct_members(n.unwrapped):
            all_members.append(c)
            uc = py_unwrap(c)
            ok = False
            for m in nodes[:i]:
                if m.type == c or (not isinstance(uc, FR) and m.unwrapped == uc and not isinstance(m.type, FR)):
                    ok = True
                    break
                if is_deferred(m) and (denoted(m) == c or denoted(m) == uc):
                    ok = True
                    break
            if not ok:
                viol("3-members-precede", f"node #{i} {n.type!r} has member {c!r} with no earlier node for it; sequence: {[x.type for x in nodes]!r}"[:600])
                break
    # 4/5 deferred nodes
    # a type "has a node of its own" if some node not flagged cyclic carries it (a string-valued
    # alias counts: its single node is deferred but it is the alias's own node)
    plain_types = [m.type for m in nodes if not m.cyclic] + [py_unwrap(m.type) for m in nodes if not is_deferred(m)]
    for i, n in enumerate(nodes):
        if isinstance(n.type, FR) and not n.cyclic:
            viol("4-forwardref-is-cyclic", f"node #{i} {n!r} is a forward reference but not flagged cyclic")
        if n.cyclic:
            d = denoted(n)
            if d is None:
                viol("5-deferred-denotes-member", f"node #{i} {n!r} cannot be evaluated", bucket="5-unevaluable")
                continue
            if not any(d == c or d == py_unwrap(c) for c in [*all_members, T]):
                viol("5-deferred-denotes-member", f"node #{i} {n!r} denotes {d!r}, which is no member type of the graph {all_members!r}"[:500])
            ud = py_unwrap(d)
            # ... and so does its `unwrapped` slot (what consumers build the delayed routine from): the unwrapped form of
            # the type it stands for, parameters included - as the thing itself or as a reference that evaluates to it.
            # (a string-valued alias unwraps to the reference to its body: clause 6 judges that)
            if not (isinstance(d, typing.TypeAliasType) and isinstance(getattr(d, "__value__", None), str)):
                u = n.unwrapped
                if isinstance(u, FR):
                    try:
                        u = py_unwrap(evaluate_ref(u))
                    except Exception:
                        u = ("<unevaluable>", repr(n.unwrapped))
                ude = ud
                if isinstance(ud, FR):   # a wrapper over a string-valued alias unwraps to the reference to the alias body
                    try:
                        ude = py_unwrap(evaluate_ref(ud))
                    except Exception:
                        pass
                if u != ud and u != d and u != ude:
                    viol("5-deferred-denotes-member", f"node #{i} {n!r}: its unwrapped form denotes {u!r}, the type it stands for unwraps to {ud!r}"[:500],
                         bucket="5-unwrapped-form")
            if not any(d == p or ud == p for p in plain_types) and not (d == T or d == py_unwrap(T) or ud == py_unwrap(T)):
                viol("4-cyclic-is-revisit", f"node #{i} {n!r} is flagged cyclic but {d!r} has no node of its own and is not the root")
    # 6 string aliases
    for i, n in enumerate(nodes):
        if isinstance(n.type, typing.TypeAliasType) and isinstance(n.type.__value__, str):
            u = n.unwrapped
            if not (isinstance(u, FR) and u.__forward_arg__ == n.type.__value__):
                viol("6-string-alias-deferred", f"node #{i} {n!r}: unwrapped is not a ForwardRef to the alias body")
            # exactly one node of its own; further nodes flagged cyclic are revisits (clauses 4/5 judge those)
            if not n.cyclic and sum(1 for m in nodes if m.type is n.type and m.var == n.var and not m.cyclic) != 1:
                viol("6-string-alias-deferred", f"alias {n.type!r} has several nodes of its own")
    rs = U.strip  # noqa: F841


def signature(nodes):
    """sequence up to the root node's own label"""
    return [(repr(n.type), repr(n.unwrapped), n.var, n.cyclic) for n in nodes[:-1]] + [("<root>", repr(nodes[-1].unwrapped), nodes[-1].var, nodes[-1].cyclic)] if nodes else []


ISSUER_SRC = """
import dataclasses
@dataclasses.dataclass
class Decoy:
    zz: str = "decoy"
def order(graph, x):
    return graph.static_order(x)
"""


def clashing_issuer(names):
    """a module (with a file name, like any user module) that binds every given name to an unrelated class and calls
    static_order from its own code: a reference that names its module must not be resolved where the caller lives"""
    import types
    m = types.ModuleType("c09_issuer")
    m.__file__ = "/nonexistent/c09_issuer.py"
    sys.modules[m.__name__] = m
    exec(compile(ISSUER_SRC, m.__file__, "exec"), m.__dict__)  # noqa: S102
    for n in names:
        m.__dict__[n] = m.__dict__["Decoy"]
    return m


def check_program(spec, mat, col, case, nontrivial=False):
    T = mat.root
    tl.clear_all()
    col.ev()
    if nontrivial:
        col.nt(mat.source())
        col.sample({"program": mat.source()[:900]})
    try:
        with core.watchdog(20):
            k, nodes = tl.call(graph.static_order, T)
    except core.WatchdogTimeout:
        col.violation("1-terminates", case, f"static_order({mat.root_expr}) did not return within 20 s")
        return
    if k == "exc":
        col.violation("1-terminates", case, f"static_order({mat.root_expr}) raised {tl.exc_name(nodes)}: {nodes}", bucket=exc_bucket(nodes))
        return
    check_nodes(nodes, T, col, case, "type")
    base = signature(nodes)
    # 7 input forms
    forms = {"second-call": lambda: graph.static_order(T), "itertypes": lambda: list(graph.itertypes(T))}
    s = U.strip(spec)
    if s["k"] in ("class", "enum") or spec["k"] in ("newtype", "alias", "stralias"):
        named = spec if spec["k"] in ("newtype", "alias", "stralias") else s
        if named is spec or spec["k"] not in ("final", "classvar"):
            local = f"{named['name']}_Ns.{named['name']}" if (named["k"] == "class" and named.get("nest")) else named["name"]
            qn = f"{mat.modname(named['mod'])}.{local}"
            forms["string"] = lambda: graph.static_order(qn)
            forms["forwardref"] = lambda: graph.static_order(FR(local, module=mat.modname(named["mod"])))
            iss = clashing_issuer([n for (_m, n) in mat.classes] + [n + "_Ns" for (_m, n) in mat.classes] + [f"M{i}" for i in mat.modules])
            forms["string@clash"] = lambda: iss.order(graph, qn)
            forms["forwardref@clash"] = lambda: iss.order(graph, FR(local, module=mat.modname(named["mod"])))
    elif "." not in mat.root_expr and "M0" not in mat.root_expr and "'" not in mat.root_expr and "Literal" not in mat.root_expr:
        # (only text every module can resolve: builtin names; the bare name `Literal` is bound by the program's modules only)
        forms["string"] = lambda: graph.static_order(mat.root_expr)
    wrapper_mod = mat.modules.get(0) or next(iter(mat.modules.values()), None)
    if wrapper_mod is not None and spec["k"] not in ("final", "classvar", "optional", "union", "literal"):
        ns = wrapper_mod.__dict__
        ns["__c09_T"] = T
        exec("W_NT = typing.NewType('W_NT', __c09_T)\nW_AL = typing.TypeAliasType('W_AL', __c09_T)", ns)  # noqa: S102
        forms["newtype"] = lambda: graph.static_order(ns["W_NT"])
        forms["alias"] = lambda: graph.static_order(ns["W_AL"])
    elif wrapper_mod is not None and spec["k"] in ("optional", "union", "literal"):
        ns = wrapper_mod.__dict__
        ns["__c09_T"] = T
        exec("W_AL = typing.TypeAliasType('W_AL', __c09_T)", ns)  # noqa: S102
        forms["alias"] = lambda: graph.static_order(ns["W_AL"])
    for name, f in forms.items():
        col.ev()
        col.label(f"form:{name}")
        if name.endswith("@clash"):
            tl.clear_all()   # (static_order is memoised by its argument: the same text was just resolved from here)
        kf, nf = tl.call(f)
        if kf == "exc":
            col.violation("7-input-forms-agree", dict(case, form=name), f"[{name}] raised {tl.exc_name(nf)}: {nf}", bucket=f"{name}|{exc_bucket(nf)}")
            continue
        if signature(nf) != base:
            col.violation("7-input-forms-agree", dict(case, form=name),
                          f"[{name}] sequence differs: {[x[0] for x in signature(nf)]} vs {[x[0] for x in base]}"[:500], bucket=name)


# ---- special programs: nested classes, same-named classes ---------------------------------------------

NESTED_SRC = '''
import dataclasses, typing
@dataclasses.dataclass
class Outer:
    @dataclasses.dataclass
    class Inner:
        x: int
        again: typing.Optional["Outer.Inner"] = None
    inner: Inner
    more: list[Inner] = dataclasses.field(default_factory=list)
    twice: typing.Optional[Inner] = None
class Tree:
    class Branch:
        class Tag(typing.NamedTuple):
            label: str
            weight: int
        tag: "Tree.Branch.Tag"
        kids: "list[Tree.Branch]"
        tags: "dict[str, Tree.Branch.Tag]"
    root: Branch
    first: "Tree.Branch.Tag"
T = typing.TypeVar("T")
class Factory(typing.Generic[T]):
    """a user generic whose instances can be called (a virtual subclass of collections.abc.Callable)"""
    made: list[T]
    def __call__(self) -> T:
        return self.made[-1]
@dataclasses.dataclass
class Catalog:
    seen: dict[str, None]
    makers: list[Factory[Outer.Inner]]
    flags: tuple[int, None] = (0, None)
'''
SAME_A = '''
import dataclasses
@dataclasses.dataclass
class Item:
    x: int
'''
SAME_B = '''
import dataclasses, typing
import c09_same_a
@dataclasses.dataclass
class Item:
    y: str
    other: c09_same_a.Item
    others: list[c09_same_a.Item]
    me: typing.Optional["Item"] = None
'''


XMOD_MODELS = '''
import dataclasses
@dataclasses.dataclass
class Account:
    n: int
PayeeId = 5   # an unrelated object that happens to carry the wrapper's name
'''
XMOD_API = '''
import dataclasses, typing
import c09_xmodels
AccountRef = typing.NewType("AccountRef", c09_xmodels.Account)
AccountAlias = typing.TypeAliasType("AccountAlias", c09_xmodels.Account)
PayeeId = typing.NewType("PayeeId", c09_xmodels.Account)
@dataclasses.dataclass
class Transfer:
    src: AccountRef
    dst: AccountRef
    via: list[AccountRef]
@dataclasses.dataclass
class Transfer2:
    src: AccountAlias
    dst: AccountAlias
    payee: PayeeId
    payee2: PayeeId
'''


def special_programs():
    import types
    out = []
    for name, src in (("c09_nested", NESTED_SRC), ("c09_same_a", SAME_A), ("c09_same_b", SAME_B), ("c09_xmodels", XMOD_MODELS), ("c09_xapi", XMOD_API)):
        m = types.ModuleType(name)
        sys.modules[name] = m
        exec(compile(src, name, "exec"), m.__dict__)  # noqa: S102
    N, A, B = sys.modules["c09_nested"], sys.modules["c09_same_a"], sys.modules["c09_same_b"]
    out.append(("nested:Outer", N.Outer))
    out.append(("nested:Inner", N.Outer.Inner))
    out.append(("nested:list[Inner]", list[N.Outer.Inner]))
    out.append(("nested:dict[str, Outer]", dict[str, N.Outer]))
    out.append(("nested:Tree", N.Tree))
    out.append(("nested:Tree.Branch", N.Tree.Branch))
    out.append(("nested:Tree.Branch.Tag", N.Tree.Branch.Tag))
    out.append(("nested:list[Tree.Branch]", list[N.Tree.Branch]))
    # the literal None as a generic argument (a set written as a mapping, a fixed slot that is always empty) and a subscripted
    # user generic that defines __call__
    out.append(("none-arg:dict[str, None]", dict[str, None]))
    out.append(("none-arg:list[None]", list[None]))
    out.append(("none-arg:tuple[int, None]", tuple[int, None]))
    out.append(("none-arg:tuple[None, ...]", tuple[None, ...]))
    out.append(("none-arg:Mapping[str, None]", collections.abc.Mapping[str, None]))
    out.append(("none-arg:list[dict[str, None]]", list[dict[str, None]]))
    out.append(("callable-generic:Factory[Inner]", N.Factory[N.Outer.Inner]))
    out.append(("callable-generic:list[Factory[Tag]]", list[N.Factory[N.Tree.Branch.Tag]]))
    out.append(("callable-generic:Catalog", N.Catalog))
    out.append(("same-name:b.Item", B.Item))
    out.append(("same-name:list[b.Item]", list[B.Item]))
    out.append(("same-name:tuple[a.Item, b.Item]", tuple[A.Item, B.Item]))
    out.append(("same-name:dict[str, b.Item | None]", dict[str, typing.Optional[B.Item]]))
    X = sys.modules["c09_xapi"]
    out.append(("cross-module-wrapper:Transfer", X.Transfer))
    out.append(("cross-module-wrapper:Transfer2", X.Transfer2))
    out.append(("cross-module-wrapper:list[Transfer]", list[X.Transfer]))
    out.append(("cross-module-wrapper:tuple[AccountRef, AccountRef]", tuple[X.AccountRef, X.AccountRef]))
    return out


def check_special(col):
    for name, T in special_programs():
        tl.clear_all()
        col.ev()
        col.nt("special:" + name)
        col.label("special:" + name.split(":")[0])
        case = {"special": name}
        try:
            with core.watchdog(20):
                k, nodes = tl.call(graph.static_order, T)
        except core.WatchdogTimeout:
            col.violation("1-terminates", case, f"static_order({name}) did not return")
            continue
        if k == "exc":
            col.violation("1-terminates", case, f"static_order({name}) raised {tl.exc_name(nodes)}: {nodes}", bucket=name.split(":")[0] + "|" + exc_bucket(nodes))
            continue
        check_nodes(nodes, T, col, case, name)
        if not isinstance(T, type):
            continue
        # 7 input forms of a class, nested classes included: module-qualified text, reference with / without a module
        base = signature(nodes)
        qn, mod = T.__qualname__, T.__module__
        iss = clashing_issuer([qn.split(".")[0], "Item", "Outer", "Tree", "Account", "Transfer"])
        forms = {"string": lambda: graph.static_order(f"{mod}.{qn}"),
                 "forwardref": lambda: graph.static_order(FR(qn, module=mod)),
                 "string@clash": lambda: iss.order(graph, f"{mod}.{qn}"),
                 "forwardref@clash": lambda: iss.order(graph, FR(qn, module=mod)),
                 "second-call": lambda: graph.static_order(T),
                 "newtype": lambda: graph.static_order(typing.NewType("W_NT", T)),
                 "alias": lambda: graph.static_order(typing.TypeAliasType("W_AL", T))}
        for fname, f in forms.items():
            col.ev()
            col.label(f"form:{fname}")
            if fname.endswith("@clash"):
                tl.clear_all()
            kf, nf = tl.call(f)
            if kf == "exc":
                col.violation("7-input-forms-agree", dict(case, form=fname), f"[{name}/{fname}] raised {tl.exc_name(nf)}: {nf}", bucket=f"special|{fname}|{exc_bucket(nf)}")
            elif signature(nf) != base:
                col.violation("7-input-forms-agree", dict(case, form=fname),
                              f"[{name}/{fname}] sequence differs: {[x[0] for x in signature(nf)]} vs {[x[0] for x in base]}"[:500], bucket=f"special|{fname}")


def check_late_definition(col):
    """a reference is asked for before the class it names exists (NameError, handled by the caller), the class is declared,
    the same reference again: the sequence of the evaluated type, like in a module where nothing ever failed"""
    from harness import late
    forms = {"string:Item": lambda m: f"{m.__name__}.Item", "forwardref:Item": lambda m: FR("Item", module=m.__name__),
             "string:Outer.Inner": lambda m: f"{m.__name__}.Outer.Inner", "forwardref:Outer.Inner": lambda m: FR("Outer.Inner", module=m.__name__),
             "string:Order": lambda m: f"{m.__name__}.Order", "alias:ItemList": lambda m: m.ItemList, "lazy:LazyItems": lambda m: m.LazyItems,
             "class:Order": lambda m: m.Order}
    evaluated = {"string:Item": lambda m: m.Item, "forwardref:Item": lambda m: m.Item, "string:Outer.Inner": lambda m: m.Outer.Inner,
                 "forwardref:Outer.Inner": lambda m: m.Outer.Inner, "string:Order": lambda m: m.Order}
    for name, mk in forms.items():
        for n_early in (1, 2):
            tl.clear_all()
            tp_ = late.TwoPhase("c09")
            try:
                early = [tl.call(graph.static_order, mk(tp_.mod))[0] for _ in range(n_early)]   # phase 1: fails, handled
                tp_.declare()
                if "ok" in early:
                    # an answer was given (and memoised) while the annotations below the root could not be resolved yet: the root
                    # was no valid annotation at that time - outside what the statement is about
                    col.label("late-definition:first-attempt-answered")
                    continue
                col.ev()
                col.nt(f"late|{name}|{n_early}")
                col.label("late-definition")
                case = {"late": name, "early_calls": n_early}
                try:
                    with core.watchdog(20):
                        k, nodes = tl.call(graph.static_order, mk(tp_.mod))
                except core.WatchdogTimeout:
                    col.violation("1-terminates", case, f"static_order({name}) after the class was declared did not return", bucket="late-definition")
                    continue
                if k == "exc":
                    col.violation("1-terminates", case, f"static_order({name}) still raises {tl.exc_name(nodes)} after the class was declared: {nodes}"[:400],
                                  bucket="late-definition|" + exc_bucket(nodes))
                    continue
                if name in evaluated:
                    T = evaluated[name](tp_.mod)
                    tl.clear_all()
                    kt, want = tl.call(graph.static_order, T)
                    if kt == "ok" and signature(nodes) != signature(want):
                        col.violation("7-input-forms-agree", case, f"[{name}] after a failed first attempt: {[x[0] for x in signature(nodes)]} vs the class's {[x[0] for x in signature(want)]}"[:500],
                                      bucket="late-definition")
                else:
                    T = mk(tp_.mod)
                    check_nodes(nodes, T, col, case, f"late:{name}")
            finally:
                tp_.close()


# ---- runner interface -------------------------------------------------------------------------------------

def topo_jobs(tier):
    jobs = []
    for n in (1, 2):
        for t in tp.enumerate_topologies(n, kinds=tp.CYCLE_KINDS, max_out=2, require_cycle=True):
            jobs.append(("cyc", t))
    for t in tp.enumerate_topologies(2, kinds=tp.ALL_KINDS, max_out=2, require_cycle=False):
        if not tp.has_cycle(t, 0) and any(k == "direct" for es in t for _, k in es):
            jobs.append(("dag", t))
    return jobs


def plan(tier, seed):
    jobs = topo_jobs(tier)
    shards = [{"kind": "topo", "mod": 12, "rem": i} for i in range(12)]
    shards.append({"kind": "special"})
    shards.append({"kind": "late-definition"})
    n = 150 if tier == "quick" else 3000
    for k in range(3):
        shards.append({"kind": "random", "seed": seed * 1000 + k, "n": n, "depth": 4 if tier == "quick" else 5})
    shards.append({"kind": "topo3", "seed": seed * 1000 + 77, "n": 300 if tier == "quick" else 6000})
    # one generic - bare or behind a NewType / alias - met twice in one annotation
    shards.append({"kind": "random", "seed": seed * 1000 + 60, "n": n, "depth": 3, "repeated": True})
    return shards


def run_topology(t, col, flavours=None, mods=None):
    n = len(t)
    for root in range(n):
        if len(tp.reachable(t, root)) == 0:
            continue
        for emb in tp.EMBEDDINGS:
            if col.out_of_time():
                return
            spec = tp.to_spec(t, root, emb, flavours=flavours, mods=mods)
            try:
                mat = U.materialise(spec)
            except Exception as e:
                col.label("harness:materialise-failed:" + type(e).__name__)
                continue
            with mat:
                col.label(f"embedding:{emb}")
                case = {"spec": spec, "root": mat.root_expr, "topology": tp.describe(t)}
                shared = tp.has_cycle(t, root) or any(len(es) > 1 for es in t)
                check_program(spec, mat, col, case, nontrivial=shared)


def check_reload(t, col, n):
    """The same module and class names are defined again (a reload / re-run notebook cell): the graph of the
    *new* class must be made of the new classes. Round 1 builds and uses routines (which evaluates deferred
    references); round 2 re-creates the program under the same module names WITHOUT clearing any cache."""
    spec = tp.to_spec(t, 0, "self")
    tag = f"reload{n}"
    for rnd in (1, 2):
        try:
            mat = U.materialise(spec, tag=tag)
        except Exception as e:
            col.label("harness:materialise-failed:" + type(e).__name__)
            return
        with mat:
            if rnd == 1:
                tl.clear_all()
            col.ev()
            case = {"spec": spec, "root": mat.root_expr, "topology": tp.describe(t), "reload_round": rnd}
            k, nodes = tl.call(graph.static_order, mat.root)
            if k == "exc":
                col.violation("1-terminates", case, f"[reload round {rnd}] static_order raised {tl.exc_name(nodes)}: {nodes}", bucket="reload|" + exc_bucket(nodes))
                return
            check_nodes(nodes, mat.root, col, case, f"reload-round-{rnd}")
            if rnd == 2:
                col.nt(f"reload|{tp.describe(t)}")
                col.label("reload-round-2-checked")
                # every class-valued node of the new graph must be one of the *new* classes
                new_classes = set(map(id, mat.classes.values()))
                for n_ in nodes:
                    d = denoted(n_) if is_deferred(n_) else n_.type
                    if isinstance(d, type) and d.__module__.startswith("vu") and id(d) not in new_classes:
                        col.violation("5-deferred-denotes-member", case, f"[reload round 2] node {n_!r} denotes a class of the previous definition of the module", bucket="reload|stale-class")
                        break
            else:
                try:
                    v = U.deep_value(spec, mat, 2)
                    tl.call(tl.marshal, v, t=mat.root)
                    tl.call(tl.unmarshal, mat.root, U.plain_wire(spec, v, mat))
                except Exception:
                    pass


def run_shard(shard, col):
    if shard["kind"] == "late-definition":
        check_late_definition(col)
        return
    if shard["kind"] == "special":
        check_special(col)
        return
    if shard["kind"] == "topo":
        for i, (kind, t) in enumerate(topo_jobs("quick")):
            if i % shard["mod"] == shard["rem"]:
                col.label("topology:" + kind)
                run_topology(t, col)
                if kind == "cyc" and (i // shard["mod"]) % 5 == 0:
                    check_reload(t, col, i)
        col.exhaustive_done = True
        return
    if shard["kind"] == "topo3":
        @st.composite
        def t34(draw):
            n = draw(st.sampled_from([3, 3, 4]))
            classes = []
            for i in range(n):
                k = draw(st.integers(0, 2))
                classes.append(tuple((draw(st.integers(0, n - 1)), draw(st.sampled_from(tp.CYCLE_KINDS))) for _ in range(k)))
            fl = [draw(st.sampled_from(tp.FLAVOURS)) for _ in range(n)]
            mods = [draw(st.integers(0, 1)) for _ in range(n)]
            return tuple(classes), fl, mods

        def one(c):
            t, fl, mods = c
            if len(tp.reachable(t, 0)) != len(t):
                return
            col.label("topology:sampled-3-4")
            run_topology(t, col, flavours=fl, mods=mods)

        core.drive(t34(), one, n=shard["n"], seed=shard["seed"], col=col)
        col.exhaustive_done = True
        return

    def per_program(p):
        nontriv = U.has_kind(p.spec, "ref") or len(p.mat.modules) > 1 or U.size(p.spec) >= 6
        check_program(p.spec, p.mat, p.col, p.case(), nontrivial=nontriv)

    adv = shard["seed"] % 2 == 1
    progs.drive_programs(col, seed=shard["seed"], n=shard["n"],
                         spec_strategy=U.repeated_generic_specs() if shard.get("repeated") else
                         U.root_specs(max_depth=shard["depth"], mods=3 if adv else 2, adversarial=adv),
                         per_program=per_program)
    col.exhaustive_done = True


def replay(clause, case, col):
    if "special" in case:
        check_special(col)
        return
    if "late" in case:
        check_late_definition(col)
        return
    progs.replay_program(case, col, lambda p: check_program(p.spec, p.mat, col, case, nontrivial=True))
