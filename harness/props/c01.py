"""C01 - unmarshal(T, marshal(v, t=T)) restores v (same classes at every position, same UTC offset).

Generator : programs of U (DESIGN.md section 3, harness/universe.py) x 8 valid values each,
            caches cleared per program (warm across its values).
Oracle    : union-free / Optional-only T -> deep_same(u, v); T with a wider Union -> the fixpoint
            marshal(unmarshal(T, m), t=T) == m for m = marshal(v, t=T) (the statement's weaker law;
            the strong law is demanded whenever no earlier member of any union can capture the
            value: neither its independently built marshaller accepts v nor its unmarshaller accepts
            the own member's wire form - decided per value by `ambiguity()`).
"""

from __future__ import annotations

import collections
import datetime
import enum

from harness import core, progs, tl
from harness import universe as U
from harness.oracles import (deep_same, diff_bucket, exc_bucket, poison_in_place, same_up_to_duration_float, settable_positions,
                             snapshot, why_different)

ID = "C01"
RULE = ("programs from the type-spec grammar of U (depth <= 4 quick / 6 thorough, 2 modules) x 8 valid values; "
        "non-trivial = depth(T) >= 2 or the value falls in a boundary class (empty/large container, min/max "
        "temporal, look-alike string, str-mixin enum member, non-str mapping key, non-UTC offset, >= 7 day or "
        "negative duration); two of the 8 values per program are also taken through fail - repair in place - retry (harness/retry.py) in "
        "both directions; distinct by (spec, value source)")
ASSUMPTIONS = ["naive temporals, NaN/inf and composite mapping keys are outside U (DESIGN.md section 3)",
               "datetime/time `fold` is not required to survive",
               "for T containing a wider Union only the fixpoint law is demanded"]
TECHNIQUE = "property-based testing: Hypothesis type-program grammar + spec-directed value strategies; round-trip oracle with class-exact deep comparison, fixpoint law for ambiguous unions"
LEVEL_TEXT = ("Generated-program exploration: thousands of synthesised annotations (real modules of dataclasses, "
              "NamedTuples, TypedDicts, plain classes, enums, aliases, recursive classes) with boundary-biased values, "
              "each round-tripped through both the functional API and routine objects and compared class-exactly.")
LEVEL_NOTE = "trusts the harness's universe generator and deep_same; absence of violations is evidence, not proof"


def value_labels(v, out=None, depth=0):
    out = set() if out is None else out
    if depth > 50:
        return out
    if isinstance(v, str):
        if v in U.LOOKALIKE_STRINGS:
            out.add("lookalike-str")
        if len(v) == 2:
            out.add("two-char-str")
    elif isinstance(v, enum.Enum):
        if isinstance(v, str):
            out.add("str-enum")
        if isinstance(v.value, str) and v.value in U.LOOKALIKE_STRINGS:
            out.add("lookalike-enum-value")
    elif isinstance(v, datetime.datetime):
        if v.utcoffset() not in (None, datetime.timedelta(0)):
            out.add("non-utc-offset")
        if v.year in (1, 2, 9998, 9999):
            out.add("extreme-temporal")
        if v.microsecond:
            out.add("microseconds")
    elif isinstance(v, datetime.time):
        if v.utcoffset() not in (None, datetime.timedelta(0)):
            out.add("non-utc-offset")
    elif isinstance(v, datetime.date):
        if v in (datetime.date.min, datetime.date.max):
            out.add("extreme-temporal")
    elif isinstance(v, datetime.timedelta):
        if abs(v) >= datetime.timedelta(days=7):
            out.add("weeks")
        if v < datetime.timedelta(0):
            out.add("negative-duration")
    elif isinstance(v, dict):
        if not v:
            out.add("empty-container")
        for k, x in v.items():
            if not isinstance(k, str):
                out.add("non-str-key")
            value_labels(k, out, depth + 1)
            value_labels(x, out, depth + 1)
    elif isinstance(v, (list, tuple, set, frozenset, collections.deque)):
        if not v:
            out.add("empty-container")
        for x in v:
            value_labels(x, out, depth + 1)
    elif hasattr(v, "__dataclass_fields__"):
        for f in v.__dataclass_fields__:
            value_labels(getattr(v, f, None), out, depth + 1)
    elif hasattr(v, "__dict__"):
        for x in vars(v).values():
            value_labels(x, out, depth + 1)
    return out


_NUMBER_CTOR = {"int": int, "float": float, "Decimal": __import__("decimal").Decimal, "Fraction": __import__("fractions").Fraction}


def ambiguity(spec, v, mat):
    """None if no union in `spec` can capture `v` on the way: for the value's own member A_i (the
    first member v conforms to) no *earlier* member's independently built marshaller accepts v and
    no earlier member's unmarshaller accepts A_i's wire form of v. Otherwise a label saying how the
    value is captured; the statement then only claims the weaker fixpoint law."""
    A = lambda s, x: ambiguity(s, x, mat)  # noqa: E731
    k = spec["k"]
    if k == "union":
        ms = spec["a"]
        if v is None and any(m["k"] == "none" for m in ms):
            return None
        own = next((i for i, m in enumerate(ms) if m["k"] != "none" and U.conforms(m, v, mat, strict=True) is None), None)
        if own is None:
            return "no-member"
        Ai = mat.annotation(ms[own])
        kw, w = tl.call(lambda: tl.marshaller(Ai)(v))
        if kw == "ok" and w is None and any(m["k"] == "none" for m in ms):
            return "unmarshal-captured"   # None is honoured first wherever it is declared (an Enum member whose value is None)
        for j in range(own):
            if ms[j]["k"] == "none":
                continue
            Aj = mat.annotation(ms[j])
            kj, wj = tl.call(lambda: tl.marshaller(Aj)(v))
            if kj == "ok" and (kw != "ok" or snapshot(wj) != snapshot(w)):
                return "marshal-captured"   # an earlier member writes the value differently
            if kw == "ok" and tl.call(lambda: tl.unmarshaller(Aj)(w))[0] == "ok":
                # a number member reads a text by its own constructor ("call the number constructor with the input"): a text
                # the constructor rejects is no wire form of that member - a capture the member's contract does not allow
                ctor = _NUMBER_CTOR.get(ms[j].get("t")) if ms[j]["k"] == "scalar" else None
                if ctor is not None and type(w) is str and tl.call(ctor, w)[0] == "exc":
                    return f"spurious-capture:{ms[j]['t']}"
                return "unmarshal-captured"
        return A(ms[own], v)
    if k in ("newtype", "alias", "stralias", "final", "classvar"):
        return A(spec["a"][0], v)
    if k == "ref":
        return A(mat.resolve(spec), v)
    if k == "optional":
        if v is None:
            return None
        kw, w = tl.call(lambda: tl.marshaller(mat.annotation(spec["a"][0]))(v))
        if kw == "ok" and w is None:
            return "unmarshal-captured"   # the wire form of a non-None value is None (an Enum member whose value is None)
        return A(spec["a"][0], v)
    if k in ("list", "set", "frozenset", "deque", "vtuple"):
        return next((r for r in (A(spec["a"][0], x) for x in v) if r), None)
    if k == "tuple":
        return next((r for r in (A(s, x) for s, x in zip(spec["a"], v)) if r), None)
    if k == "dict":
        for kk, vv in v.items():
            r = A(spec["a"][0], kk) or A(spec["a"][1], vv)
            if r:
                return r
        return None
    if k == "class":
        fl = spec["flavour"]
        for f in spec["fields"]:
            if fl.startswith("typeddict"):
                if f["n"] not in v:
                    continue
                x = v[f["n"]]
            else:
                x = getattr(v, f["n"])
            r = A(f["t"], x)
            if r:
                return r
        return None
    return None


def bucket_of(spec, v):
    """kind path of the outermost two levels: keeps root causes apart without exploding."""
    s = U.strip(spec)
    inner = ",".join(sorted({U.strip(c)["k"] + (":" + U.strip(c).get("t", "") if U.strip(c)["k"] == "scalar" else "")
                             for c in list(s.get("a", ())) + [f["t"] for f in s.get("fields", ())]}))
    return f"{s['k']}{':' + s['t'] if s['k'] == 'scalar' else ''}[{inner}]"[:120]


def fixpoint_trace(T, v):
    """what the three calls of the fixpoint law give: (m, unmarshal(T, m), marshal(that)) as snapshots / exception names"""
    out = []
    k, m = tl.call(tl.marshal, v, t=T)
    out.append(snapshot(m) if k == "ok" else ("exc", tl.exc_name(m)))
    if k == "ok":
        k, u = tl.call(tl.unmarshal, T, m)
        out.append(snapshot(u) if k == "ok" else ("exc", tl.exc_name(u)))
        if k == "ok":
            k, m2 = tl.call(tl.marshal, u, t=T)
            out.append(snapshot(m2) if k == "ok" else ("exc", tl.exc_name(m2)))
    return out


def history_diag(T, v):
    """The known failure of the fixpoint law is a matter of (type, value) alone: an earlier member captures the value. If the
    same three calls give something else once every cache has been cleared, what was observed depended on the calls before
    it - a different thing (and not the recorded finding)."""
    warm = fixpoint_trace(T, v)
    tl.clear_all()
    cold = fixpoint_trace(T, v)
    return None if warm == cold else "history-dependent"


def check_value(p, v, col, via: str):
    T, spec, mat = p.T, p.spec, p.mat
    wide = U.has_kind(spec, "union")
    vsrc = p.src(v)
    col.ev()
    labels = value_labels(v)
    for lb in labels:
        col.label("value:" + lb)
    if U.depth(spec) >= 2 or labels:
        col.nt(p.key + vsrc)
    if labels:
        col.sample({"T": mat.root_expr, "v": vsrc[:300], "labels": sorted(labels)})

    # decided only after the library calls under test: the rule builds routines of its own for member types and
    # must not warm the caches those calls start from
    amb = None

    def case():
        c = p.case(value=vsrc, via=via)
        if amb:
            c["ambiguous"] = amb
        return c

    before = snapshot(v)
    if via == "functional":
        km, m = tl.call(tl.marshal, v, t=T)
    else:
        kr, mr = tl.call(tl.marshaller, T)
        if kr == "exc":
            col.violation("marshal-succeeds", case(), f"marshaller({mat.root_expr}) raised {tl.exc_name(mr)}: {mr}",
                          bucket=exc_bucket(mr))
            return
        km, m = tl.call(mr, v)
    if km == "exc":
        col.violation("marshal-succeeds", case(), f"marshal({vsrc[:200]}, t={mat.root_expr}) raised {tl.exc_name(m)}: {m}",
                      bucket=exc_bucket(m))
        return
    if via == "functional":
        ku, u = tl.call(tl.unmarshal, T, m)
    else:
        kr, ur = tl.call(tl.unmarshaller, T)
        if kr == "exc":
            col.violation("unmarshal-succeeds", case(), f"unmarshaller({mat.root_expr}) raised {tl.exc_name(ur)}: {ur}",
                          bucket=exc_bucket(ur))
            return
        ku, u = tl.call(ur, m)
    amb = ambiguity(spec, v, mat) if (wide or U.has_kind(spec, "optional")) else None
    if amb and amb.startswith("spurious-capture"):
        spurious, amb = amb, None      # no ambiguity in the statement's sense: the strong law applies to this value
        amb_case = dict(case(), diag=spurious)
        amb = spurious
        col.violation("round-trip", amb_case, f"T={mat.root_expr} v={vsrc[:200]} m={m!r:.200}: an earlier {amb.split(':')[1]} member accepts the text wire form of a later "
                      f"member although {amb.split(':')[1]}(text) rejects it", bucket="spurious-capture|" + amb.split(":")[1])
        amb = None
    if ku == "exc" and amb and isinstance(u, ValueError):
        c = case()
        hd = history_diag(T, v)
        if hd:
            c["diag"] = hd
        col.violation("union-fixpoint", c, f"T={mat.root_expr} m={m!r:.200}: unmarshal(T, m) raised {tl.exc_name(u)}: {u}" + (f" [{hd}]" if hd else ""),
                      bucket="unmarshal-raises" + (f"|{hd}" if hd else ""))
        return
    if ku == "exc":
        col.violation("unmarshal-succeeds", case(), f"unmarshal({mat.root_expr}, {m!r:.200}) raised {tl.exc_name(u)}: {u}",
                      bucket=exc_bucket(u))
        return
    strong = amb is None
    col.label("law:strong" if strong else f"law:fixpoint-only:{amb}")
    if wide:
        col.label("wide-union:strong" if strong else "wide-union:ambiguous")
    if strong:
        if not deep_same(u, v):
            c = case()
            if same_up_to_duration_float(u, v):
                c["diag"] = "duration-float-precision"
            col.violation("round-trip", c, f"T={mat.root_expr} v={vsrc[:200]} m={m!r:.200} -> {why_different(u, v)}",
                          bucket=diff_bucket(u, v))
    else:
        k2, m2 = tl.call(tl.marshal, u, t=T)
        if k2 == "exc" or snapshot(m2) != snapshot(m):
            c = case()
            hd = history_diag(T, v)
            if hd:
                c["diag"] = hd
            col.violation("union-fixpoint", c, f"T={mat.root_expr} m={m!r:.200} but marshal(unmarshal(T, m)) = {m2!r:.200}" + (f" [{hd}]" if hd else ""),
                          bucket=(hd + "|" if hd else "") + bucket_of(spec, v))
    if snapshot(v) != before:
        col.violation("input-unchanged", case(), "marshal modified its input", bucket=bucket_of(spec, v))


def check_retry(p, v, col, pick: int):
    """A call that fails on an invalid member - the caller handles the error and repairs that very object - and the same call
    again: the repaired value is a valid v like any other, its round trip must be what it is for a value nobody failed on
    before. Both directions: the value (marshal) and its wire form (unmarshal)."""
    T, mat = p.T, p.mat
    vsrc = p.src(v)
    k0, m0 = tl.call(tl.marshal, v, t=T)
    if k0 == "exc":
        return
    k1, u0 = tl.call(tl.unmarshal, T, m0)
    for direction, obj, call, want in (("marshal", v, lambda o: tl.call(tl.marshal, o, t=T), (k0, snapshot(m0) if k0 == "ok" else None)),
                                       ("unmarshal", m0, lambda o: tl.call(tl.unmarshal, T, o), (k1, snapshot(u0) if k1 == "ok" else None))):
        if want[0] != "ok":
            continue
        positions = settable_positions(obj)
        if not positions:
            continue
        pos = positions[pick % len(positions)]
        undo = poison_in_place(pos)
        if undo is None:
            continue
        col.ev()
        kf, _rf = call(obj)
        undo()
        col.label(f"retry:first-call-{'failed' if kf == 'exc' else 'passed'}")
        k2, r2 = call(obj)
        if kf == "exc":
            col.nt(p.key + vsrc + direction + "retry")
        got = (k2, snapshot(r2) if k2 == "ok" else tl.exc_name(r2))
        if got != want:
            col.violation("round-trip-after-handled-failure", p.case(value=vsrc, retry=direction, pick=pick),
                          f"T={mat.root_expr}: {direction} of a value failed on an invalid member, the member was repaired in place, "
                          f"the same call then {'raised ' + str(got[1]) if k2 == 'exc' else 'returned something else'} (a fresh equal value: fine)",
                          bucket=f"{direction}|{'raises' if k2 == 'exc' else 'differs'}")


def per_program(p):
    col = p.col
    try:
        vs = U.values(p.spec, p.mat)
    except U._Exhausted:
        col.label("harness:no-finite-value")
        return
    for i in range(8):
        v = p.draw(vs)
        check_value(p, v, col, "functional" if i % 2 == 0 else "objects")
        if i in (2, 5):
            check_retry(p, v, col, p.draw(core.st.integers(0, 10 ** 6)))


def plan(tier, seed):
    n = 220 if tier == "quick" else 2500
    depth = 4 if tier == "quick" else 6
    shards = [{"seed": seed * 1000 + k, "n": n, "depth": depth, "adversarial": k % 4 == 3} for k in range(16)]
    # one parameterised generic met twice in one annotation (nested first / bare first)
    shards += [{"seed": seed * 1000 + 70 + k, "n": n, "depth": 3, "repeated": True} for k in range(2)]
    # unions of leaf types: values of one class that belong to different members, one after the other on the same routines
    shards += [{"seed": seed * 1000 + 80 + k, "n": n, "depth": 2, "unions": True} for k in range(2)]
    # recursive classes whose cycle is closed through a named alias / NewType (of a container of the class, or of the class itself)
    shards += [{"seed": seed * 1000 + 90, "n": 150 if tier == "quick" else 1500, "depth": 2, "alias_cycles": True}]
    return shards


def alias_cycle_specs():
    from harness import topology as tp
    out = []
    for t in tp.enumerate_topologies(1, kinds=tp.CYCLE_KINDS + tp.ALIAS_KINDS):
        if any(k in tp.ALIAS_KINDS for _, k in t[0]):
            for emb in tp.EMBEDDINGS + ["edgealias"]:
                for fl in ("dataclass", "plain", "namedtuple"):
                    out.append(tp.to_spec(t, 0, emb, flavours=[fl], future=(fl == "plain")))
    return out


def run_shard(shard, col):
    if shard.get("alias_cycles"):
        progs.drive_programs(col, seed=shard["seed"], n=shard["n"], spec_strategy=core.st.sampled_from(alias_cycle_specs()), per_program=per_program)
        return
    adv = shard.get("adversarial", False)
    progs.drive_programs(col, seed=shard["seed"], n=shard["n"],
                         spec_strategy=(U.scalar_union_specs() if shard.get("unions") else U.repeated_generic_specs() if shard.get("repeated") else
                                        U.root_specs(max_depth=shard["depth"], mods=3 if adv else 2, adversarial=adv)),
                         per_program=per_program)


def replay(clause, case, col):
    def per_case(p):
        v = p.mat.eval(case["value"])
        if case.get("retry"):
            check_retry(p, v, col, case["pick"])
            return
        check_value(p, v, col, case.get("via", "functional"))

    progs.replay_program(case, col, per_case)


def cg_plan(seed):
    """coverage-guided shards of the thorough tier (harness/cg.py): same strategies and check functions, choices from libFuzzer"""
    return [{"seed": seed * 1000 + 900 + k, "n": 0, "depth": 4, "adversarial": k % 2 == 1, "cg": {"runs": 6000}} for k in range(4)]
