"""C12 - results depend only on (type, input), never on call history.

A Hypothesis RuleBasedStateMachine over a fixed pool of module-level types of U - including pairs that
are distinct objects but compare/hash equal (both member orders of a union, Literal[1, 2] / Literal[2, 1],
an alias and its value, two same-named classes referenced by a bare string from two modules) - and
inputs including equal-but-distinct values (one instant at two offsets, 1 / 1.0 / True, equal text as
str / bytes, JSON text of containers). Rules: build routines, marshal, unmarshal, encode, decode,
deep-mutate a previously returned result, deep-mutate a previously passed input, clear caches.

Oracle after every operation: the hot outcome equals the outcome of the same operation run alone in a
cold process (harness/cold.py: a pristine zygote forks one grandchild per query); the input is not
mutated by the call; mutable containers of a new result are not shared with any live earlier result
or input.
"""

from __future__ import annotations

import sys
import types

import hypothesis
from hypothesis import HealthCheck, Phase, settings
from hypothesis.stateful import RuleBasedStateMachine, precondition, rule, run_state_machine_as_test

from harness import cold, core, tl
from harness.core import st
from harness.oracles import mutable_ids, snapshot

ID = "C12"
RULE = ("state-machine histories of up to 50 steps over 36 pool types and their inputs; non-trivial = the history repeats "
        "a (type, input) after a mutation or a cache-affecting step, or uses both elements of an equal-but-distinct pair; "
        "distinct by (history prefix digest, operation)")
ASSUMPTIONS = ["the cold oracle is a forked pristine interpreter that has imported typelib but made no call (module import side effects are shared)",
               "pool types are fully annotated (no Any / bare containers, whose contents are passed through by contract)"]
TECHNIQUE = "model-based stateful testing: Hypothesis rule-based state machine, every operation compared with the same operation run alone in a forked cold process; aliasing and input-immutability invariants"
LEVEL_TEXT = ("Random operation histories (build / marshal / unmarshal / encode / decode / mutate result / mutate input / clear "
              "caches) over a pool with equal-but-distinct types and values; after every step the outcome is compared with a "
              "cold process and aliasing with earlier results and inputs is checked.")
LEVEL_NOTE = "trusts fork()ed pristine processes as the definition of 'run alone in a cold process'"

POOL_SRC = '''
import collections, dataclasses, datetime, decimal, enum, fractions, pathlib, typing, uuid
import pendulum
from typing import *

@dataclasses.dataclass
class DC:
    a: int
    b: list[str] = dataclasses.field(default_factory=list)

@dataclasses.dataclass
class Node:
    v: int
    kids: list["Node"] = dataclasses.field(default_factory=list)

class E(enum.Enum):
    A = "a"
    ONE = 1

class TD(typing.TypedDict):
    k: int
    tags: list[str]

class NT(typing.NamedTuple):
    p: int
    q: tuple[int, ...] = ()

@dataclasses.dataclass
class BaseRec:
    a: int = 0

@dataclasses.dataclass
class SubRec(BaseRec):
    b: str = "x"
    c: list[int] = dataclasses.field(default_factory=list)

class PlainBase:
    a: int
    def __init__(self, a=0):
        self.a = a
    def __eq__(self, o):
        return type(o) is type(self) and vars(o) == vars(self)

class PlainSub(PlainBase):
    b: str
    def __init__(self, a=0, b="x"):
        super().__init__(a)
        self.b = b

@dataclasses.dataclass
class Priv:
    name: str
    _rev: int = 0

class Sentinel:
    """an input no routine knows (its text does not show an address)"""
    def __repr__(self):
        return "<sentinel>"

class PrivPlain:
    """a plain annotated class with an underscore-led field its constructor accepts"""
    name: str
    _token: str
    def __init__(self, name: str, _token: str = "none"):
        self.name, self._token = name, _token
    def __eq__(self, o):
        return type(o) is type(self) and vars(o) == vars(self)
    def __repr__(self):
        return f"PrivPlain({self.name!r}, {self._token!r})"

@dataclasses.dataclass
class Wide:
    x: int
    y: int

@dataclasses.dataclass
class Narrow:
    x: int

def repair(o):
    """make a value that holds invalid members valid, in place"""
    if isinstance(o, Node):
        if not isinstance(o.v, int):
            o.v = 0
        for k in o.kids:
            repair(k)
    elif isinstance(o, (list, tuple)):
        for k in o:
            repair(k)
    elif isinstance(o, dict):
        if "v" in o and not isinstance(o["v"], int):   # the wire form of a Node
            o["v"] = 0
        for k in o.values():
            repair(k)
    return o

AL = typing.TypeAliasType("AL", list[int])
SAL = typing.TypeAliasType("SAL", "dict[str, list[int]]")
NTy = typing.NewType("NTy", dict[str, int])
UTC = datetime.timezone.utc
P5 = datetime.timezone(datetime.timedelta(hours=5))
'''
MOD_A_SRC = '''
import dataclasses
@dataclasses.dataclass
class Item:
    x: int
def unmarshal_here(tl, value):
    return tl.unmarshal("Item", value)
def marshal_here(tl, value):
    return tl.marshal(value, t="Item")
'''
MOD_B_SRC = '''
import dataclasses
@dataclasses.dataclass
class Item:
    y: str
def unmarshal_here(tl, value):
    return tl.unmarshal("Item", value)
def marshal_here(tl, value):
    return tl.marshal(value, t="Item")
'''

# key -> (type expression, valid value sources, unmarshal input sources)
TYPES = {
    "int": ("int", ["1", "True", "7"], ["'1'", "b'1'", "1.0", "1", "True", "'7'", "memoryview(b'1')", "memoryview(bytearray(b'7'))",
                                       # texts beyond the interpreter's limit for int <-> text conversion (4300 digits): numeric and not
                                       "'7' * 5000", "'z' * 5000", "'-' + '1' * 4400"]),
    "float": ("float", ["1.0", "1", "2.5"], ["'1'", "1", "True", "'2.5'", "b'1.0'"]),
    "str": ("str", ["'a'", "'1'"], ["1", "b'a'", "'a'", "1.0", "True",
                                    # an int beyond the interpreter's int -> text limit: whether it can be written is a process-wide setting
                                    "7 * 10 ** 6000", "-(10 ** 4400)"]),
    "Decimal": ("decimal.Decimal", ["decimal.Decimal('1.0')", "decimal.Decimal('1.00')"], ["'1.0'", "'1.00'", "1", "1.0"]),
    "datetime": ("datetime.datetime", ["datetime.datetime(2020, 1, 1, 5, 0, tzinfo=P5)", "datetime.datetime(2020, 1, 1, 0, 0, tzinfo=UTC)"],
                 ["'2020-01-01T05:00:00+05:00'", "'2020-01-01T00:00:00+00:00'", "1577836800", "1577836800.0", "'PT1H'", "'P1D'", "'2031-05-06'"]),
    "date": ("datetime.date", ["datetime.date(2031, 5, 6)"], ["'2031-05-06'", "'PT1H'", "'05:00:00+05:00'", "1577836800", "'2020-01-01T05:00:00+05:00'"]),
    "time": ("datetime.time", ["datetime.time(5, 0, tzinfo=P5)", "datetime.time(0, 0, tzinfo=UTC)"], ["'05:00:00+05:00'", "'00:00:00+00:00'", "'PT1H'", "'2031-05-06'"]),
    "timedelta": ("datetime.timedelta", ["datetime.timedelta(days=1)", "datetime.timedelta(hours=24)",
                                           # equal and equal-hashed, but a different class with its own text form
                                           "datetime.timedelta(days=30)", "pendulum.duration(months=1)", "pendulum.duration(days=30)"], ["'P1D'", "'PT24H'", "86400", "86400.0", "'PT1H'", "'2031-05-06'", "'05:00:00+05:00'", "'2020-01-01T05:00:00+05:00'"]),
    "list[int]": ("list[int]", ["[1, 2]", "[True, 1.0]"], ["'[1, 2]'", "b'[1, 2]'", "[1, 2]", "['1', '2']", "(1, 2)", "'[' + '7' * 5000 + ']'", "['7' * 5000]"]),
    "AL": ("AL", ["[1, 2]"], ["'[1, 2]'", "[1, 2]"]),
    "dict[str, list[int]]": ("dict[str, list[int]]", ["{'a': [1]}"], ["'{\"a\": [1]}'", "{'a': [1]}", "{'a': ['1']}"]),
    "SAL": ("SAL", ["{'a': [1]}"], ["'{\"a\": [1]}'", "{'a': [1]}"]),
    "NTy": ("NTy", ["{'a': 1}"], ["'{\"a\": 1}'", "{'a': 1}"]),
    "dict[str, int]": ("dict[str, int]", ["{'a': 1}"], ["'{\"a\": 1}'", "{'a': 1}", "[('a', 1)]"]),
    "Union[int, str]": ("typing.Union[int, str]", ["1", "'a'", "'1'"], ["'1'", "1", "'a'", "b'1'", "'z' * 5000", "'7' * 5000"]),
    "Union[str, int]": ("typing.Union[str, int]", ["1", "'a'", "'1'"], ["'1'", "1", "'a'", "b'1'"]),
    "float | str": ("float | str", ["1.5", "'abc'", "'1.5'"], ["'1.5'", "'abc'", "1", "b'2.5'"]),
    # (member sets no other union of this pool has: equal-but-reordered unions share routines, K-EQCACHE)
    "list[float | str]": ("list[float | str]", ["['seven', '7.5']", "['7.5', 'seven']", "[1.5, 'a']"], ["['7.5', 'seven']", "['seven', '7.5']", "'[\"7.5\", \"x\"]'"]),
    "int | None | str": ("int | None | str", ["1", "None", "'x'"], ["'1'", "None", "'x'"]),
    "str | None | int": ("str | None | int", ["1", "None", "'x'"], ["'1'", "None", "'x'"]),
    # unions whose members both accept some non-text inputs: which member takes an input must not depend on
    # what the routine has seen before
    "Literal[1, 2] | float": ("typing.Union[typing.Literal[1, 2], float]", ["1", "2.5"], ["3", "1", "2", "2.5", "'1'"]),
    "Wide | Narrow": ("typing.Union[Wide, Narrow]", ["Wide(1, 2)", "Narrow(1)"], ["{'x': 1}", "{'x': 1, 'y': 2}", "{'x': '3', 'y': '4'}"]),
    "tuple[int, int, int] | tuple[int, int]": ("typing.Union[tuple[int, int, int], tuple[int, int]]", ["(1, 2, 3)", "(1, 2)"], ["[1, 2]", "[1, 2, 3]", "['4', '5', '6']"]),
    "Literal[1, 2]": ("typing.Literal[1, 2]", ["1", "2", "True", "1.0"], ["'1'", "1", "2", "b'2'", "True", "1.0", "2.0"]),
    "Literal[2, 1]": ("typing.Literal[2, 1]", ["1", "2", "True", "2.0"], ["'1'", "1", "2", "b'2'", "True", "1.0"]),
    # members and inputs that compare and hash equal but are of different classes (1 / 1.0 / True, 0 / 0.0 / False):
    # membership is class-exact, so each of them has its own answer whatever was asked before
    "Literal[1, 'a']": ("typing.Literal[1, 'a']", ["1", "'a'", "True", "1.0"], ["1", "True", "1.0", "'a'", "'1'", "b'1'", "memoryview(b'1')"]),
    "Literal[True, 'a']": ("typing.Literal[True, 'a']", ["True", "'a'", "1", "1.0"], ["True", "1", "1.0", "'a'", "'true'"]),
    "Literal[0, 'b']": ("typing.Literal[0, 'b']", ["0", "'b'", "False", "0.0"], ["False", "0", "0.0", "'b'", "'0'"]),
    "Literal[True]": ("typing.Literal[True]", ["True", "1"], ["True", "1", "1.0", "'true'"]),
    "Literal[1]": ("typing.Literal[1]", ["1", "True"], ["1", "True", "1.0", "'1'"]),
    # a field the generic item iteration skips on the way out but accepts on the way in
    "Priv": ("Priv", ["Priv('a', 5)", "Priv('b')"], ["{'name': 'a', '_rev': '5'}", "{'name': 'b'}", "'{\"name\": \"a\", \"_rev\": 7}'", "[('name', 'c'), ('_rev', 9)]"]),
    "PrivPlain": ("PrivPlain", ["PrivPlain('a', 's3cr3t')", "PrivPlain('b')"], ["{'name': 'a', '_token': 's3cr3t'}", "{'name': 'b'}", "'{\"name\": \"a\", \"_token\": 7}'", "PrivPlain('c', 't')"]),
    "list[PrivPlain]": ("list[PrivPlain]", ["[PrivPlain('a', 's')]"], ["[{'name': 'a', '_token': 'x'}]"]),
    # a class and its subclass that adds fields: whichever is used first must not decide what the other yields
    "BaseRec": ("BaseRec", ["BaseRec(1)"], ["{'a': '1'}", "BaseRec(2)", "SubRec(3, 'y', [1])"]),
    "SubRec": ("SubRec", ["SubRec(1, 'y', [2])", "SubRec(2)"], ["{'a': '1', 'b': 2, 'c': ['3']}", "SubRec(4, 'z', [5])"]),
    "PlainBase": ("PlainBase", ["PlainBase(1)"], ["{'a': '1'}", "PlainBase(2)"]),
    "PlainSub": ("PlainSub", ["PlainSub(1, 'y')"], ["{'a': '1', 'b': 2}", "PlainSub(3, 'z')"]),
    "Optional[int]": ("typing.Optional[int]", ["None", "3"], ["None", "'3'", "memoryview(b'3')", "b'3'", "3"]),
    "Optional[list[int]]": ("typing.Optional[list[int]]", ["None", "[1]"], ["None", "'[1]'", "[1]"]),
    "list[int] | None": ("list[int] | None", ["None", "[1]"], ["None", "'[1]'", "[1]"]),
    "DC": ("DC", ["DC(1, ['x'])", "DC(2)"], ["{'a': 1, 'b': ['x']}", "'{\"a\": 1, \"b\": [\"x\"]}'", "{'a': '2'}", "[('a', 3)]"]),
    "list[DC]": ("list[DC]", ["[DC(1, ['x'])]"], ["[{'a': 1, 'b': ['x']}]", "'[{\"a\": 1}]'"]),
    "Node": ("Node", ["Node(1, [Node(2)])"], ["{'v': 1, 'kids': [{'v': 2, 'kids': []}]}", "'{\"v\": 1}'"]),
    "list[Node]": ("list[Node]", ["[Node(1, [Node(2)])]"], ["[{'v': 1, 'kids': [{'v': 2}]}]"]),
    "dict[str, Node]": ("dict[str, Node]", ["{'r': Node(1)}"], ["{'r': {'v': 1}}"]),
    "E": ("E", ["E.A", "E.ONE"], ["'a'", "1", "'1'", "b'a'"]),
    "TD": ("TD", ["{'k': 1, 'tags': ['t']}"], ["{'k': '1', 'tags': ['t']}", "'{\"k\": 1, \"tags\": []}'"]),
    "NT": ("NT", ["NT(1, (2, 3))"], ["{'p': 1, 'q': [2, 3]}", "[('p', '1')]"]),
    "tuple[int, str]": ("tuple[int, str]", ["(1, 'a')"], ["[1, 'a']", "'[1, \"a\"]'", "('1', 2)"]),
    "tuple[int, ...]": ("tuple[int, ...]", ["(1, 2)"], ["[1, 2]", "'[1, 2]'"]),
    "set[int]": ("set[int]", ["{1, 2}"], ["[1, 2, 2]", "'[1, 2]'"]),
    "dict[str, Decimal]": ("dict[str, decimal.Decimal]", ["{'a': decimal.Decimal('1.10')}"], ["{'a': '1.10'}", "{'a': 1}"]),
    "uuid": ("uuid.UUID", ["uuid.UUID(int=1)"], ["1", "'00000000-0000-0000-0000-000000000001'"]),
    "Path": ("pathlib.PurePosixPath", ["pathlib.PurePosixPath('1')"], ["'1'", "b'1'", "'a/b'"]),
    # bare containers: contents are passed through by contract, but text input is decoded by the library,
    # so the *result* must still be a fresh object on every call
    "list(bare)": ("list", ["[1, 2]"], ["'[1, 2]'", "b'[1, 2]'", "'[[1], [2]]'", "'[]'"]),
    "dict(bare)": ("dict", ["{'a': 1}"], ["'{\"a\": [1]}'", "b'{\"a\": 1}'", "'{}'"]),
    # Python-literal text decodes to tuples that may hold mutable containers
    "tuple(bare)": ("tuple", ["(1, 2)"], ["'[1],[2]'", "'(1, [2, 3], {\"k\": [4]})'", "'1,2'", "b'[1],[2]'"]),
    "tuple[list, ...](bare)": ("tuple[list, ...]", ["([1], [2])"], ["'[1],[2]'", "'([1, 2], [3])'", "b'[1],[2]'"]),
    "list[list](bare)": ("list[list]", ["[[1], [2]]"], ["'[1],[2]'", "'[[1], [2]]'", "b'[[1], [2]]'"]),
    "dict[str, dict](bare)": ("dict[str, dict]", ["{'a': {'b': 1}}"], ["'{\"a\": {\"b\": [1]}}'", "\"{'a': {'b': [1]}}\""]),
    "'Item'@A": ("<bare string from module A>", ["A.Item(1)"], ["{'x': 1}", "{'x': '2'}"]),
    "'Item'@B": ("<bare string from module B>", ["B.Item('s')"], ["{'y': 's'}", "{'y': 3}"]),
}
# values holding an invalid member somewhere below a recursive position (see the fail_repair_retry rule)
BROKEN = {
    "Node": ["Node(1, [Node('bad')])", "Node(1, [Node(2, [Node(object())])])", "Node('bad')"],
    "list[Node]": ["[Node(1, [Node('bad')])]", "[Node(1), Node(2, [Node(None)])]"],
    "dict[str, Node]": ["{'r': Node(1, [Node('bad')])}"],
}
# ... and wire inputs with an invalid member below a recursive position (the unmarshal direction of the same rule)
BROKEN_IN = {
    "Node": ["{'v': 1, 'kids': [{'v': 'bad', 'kids': []}]}", "{'v': 1, 'kids': [{'v': 2, 'kids': [{'v': None, 'kids': []}]}]}",
             "{'v': 1, 'kids': [{'v': 2, 'kids': []}, {'v': [], 'kids': []}]}"],
    "list[Node]": ["[{'v': 1, 'kids': [{'v': 'bad', 'kids': []}]}]", "[{'v': 1, 'kids': []}, {'v': 2, 'kids': [{'v': 'x', 'kids': []}]}]"],
    "dict[str, Node]": ["{'r': {'v': 1, 'kids': [{'v': 'bad', 'kids': []}]}}"],
}
# unions in which inputs of one class are taken by different members depending on the value: (later member's, earlier member's)
SPLIT = {
    "Union[int, str]": ("'a'", "'1'"), "int | None | str": ("'x'", "'1'"), "Literal[1, 2] | float": ("2.5", "1"),
    "tuple[int, int, int] | tuple[int, int]": ("[1, 2]", "[1, 2, 3]"), "Wide | Narrow": ("{'x': 1}", "{'x': 1, 'y': 2}"),
    "float | str": ("'abc'", "'1.5'"), "list[float | str]": ("['seven', '7.5']", "['7.5', 'seven']"),
}
# inputs most routines reject, and probes whose outcome depends on interpreter-wide settings (int <-> text digit limit, decimal
# context) or on what a routine remembers about a failed attempt
REJECTS = ["'z' * 5000", "'7' * 5000 + 'x'", "Sentinel()", "None", "b'\\xff\\xfe'", "[[['x']]]", "10 ** 400", "'not-a-thing'", "float('nan')", "{'zz': 1}"]
PROBES = [("unmarshal", "str", "7 * 10 ** 6000"), ("unmarshal", "int", "'7' * 5000"), ("unmarshal", "Decimal", "'1.10'"),
          ("unmarshal", "float", "'2.5'"), ("marshal", "Decimal", "decimal.Decimal('1.00')")]
PARTNERS = [
    {"Union[int, str]", "Union[str, int]"}, {"int | None | str", "str | None | int"}, {"Literal[1, 2]", "Literal[2, 1]"},
    {"Optional[list[int]]", "list[int] | None"}, {"list[int]", "AL"}, {"dict[str, list[int]]", "SAL"}, {"'Item'@A", "'Item'@B"},
    {"dict[str, int]", "NTy"}, {"Literal[1, 'a']", "Literal[True, 'a']"}, {"Literal[True]", "Literal[1]"},
    {"BaseRec", "SubRec"}, {"PlainBase", "PlainSub"},
]

def _snap(x):
    """snapshot of an input; an input the call left unusable (a released memoryview) is a changed input"""
    try:
        return snapshot(x)
    except ValueError as e:
        return ("<unusable>", str(e))


_POOL = None


def pool():
    global _POOL
    if _POOL is None:
        ns = {}
        for name, src in (("c12_pool", POOL_SRC), ("c12_mod_a", MOD_A_SRC), ("c12_mod_b", MOD_B_SRC)):
            m = types.ModuleType(name)
            sys.modules[name] = m
            exec(compile(src, name, "exec"), m.__dict__)  # noqa: S102
            ns[name] = m
        g = dict(ns["c12_pool"].__dict__)
        g["A"] = ns["c12_mod_a"]
        g["B"] = ns["c12_mod_b"]
        _POOL = g
    return _POOL


def type_of(key):
    g = pool()
    if key.startswith("'Item'@"):
        return None
    return eval(TYPES[key][0], g)  # noqa: S307


def perform(req):
    """one operation, used hot (in the worker) and cold (in a grandchild of the zygote)"""
    op, key, src = req
    g = pool()
    x = eval(src, g) if src is not None else None  # noqa: S307
    return _run(op, key, x)


def _run(op, key, x):
    g = pool()
    try:
        if key.startswith("'Item'@"):
            mod = g[key[-1]]
            if op == "unmarshal":
                r = mod.unmarshal_here(tl, x)
            elif op == "marshal":
                r = mod.marshal_here(tl, x)
            elif op == "build":
                r = None
            else:
                return ("skip",)
        else:
            T = type_of(key)
            if op == "build":
                tl.marshaller(T), tl.unmarshaller(T), tl.codec(T)
                r = None
            elif op == "marshal":
                r = tl.marshal(x, t=T)
            elif op == "unmarshal":
                r = tl.unmarshal(T, x)
            elif op == "encode":
                r = tl.codec(T).encode(x)
            elif op == "decode":
                r = tl.codec(T).decode(x)
            elif op == "api-encode":
                r = tl.typelib.encode(x, t=T)
            elif op == "api-decode":
                r = tl.typelib.decode(T, x)
            else:
                raise AssertionError(op)
        return ("ok", snapshot(r), r)
    except Exception as e:  # noqa: BLE001
        return ("exc", tl.exc_name(e), None)


def cold_perform(req):
    out = perform(req)
    return out[:2]  # the live object stays in the grandchild


def to_src(v):
    from harness import universe as U
    g = pool()
    s = U.to_src(v)
    if "<unrenderable" in s:
        # pool dataclasses / enums / named tuples
        s = _render(v, g)
    return s


def _render(v, g):
    import dataclasses as dc
    import enum as en
    if isinstance(v, en.Enum):
        return f"{type(v).__name__}.{v.name}"
    if dc.is_dataclass(v) and not isinstance(v, type):
        modn = type(v).__module__
        prefix = {"c12_mod_a": "A.", "c12_mod_b": "B."}.get(modn, "")
        return prefix + type(v).__name__ + "(" + ", ".join(f"{f.name}={_render(getattr(v, f.name), g)}" for f in dc.fields(v)) + ")"
    if isinstance(v, tuple) and hasattr(v, "_fields"):
        return type(v).__name__ + "(" + ", ".join(_render(x, g) for x in v) + ")"
    if isinstance(v, list):
        return "[" + ", ".join(_render(x, g) for x in v) + "]"
    if isinstance(v, tuple):
        return "(" + ", ".join(_render(x, g) for x in v) + ("," if len(v) == 1 else "") + ")"
    if isinstance(v, dict):
        return "{" + ", ".join(f"{_render(k, g)}: {_render(x, g)}" for k, x in v.items()) + "}"
    if isinstance(v, set):
        return "{" + ", ".join(sorted(_render(x, g) for x in v)) + "}" if v else "set()"
    from harness import universe as U
    return U.to_src(v)


def deep_mutate(x, how: int) -> bool:
    """mutate the first mutable container found inside x (in place); True if something changed"""
    import dataclasses as dc
    if isinstance(x, list):
        if how % 3 == 0 or not x:
            x.append("MUTATED")
        elif how % 3 == 1:
            x.clear()
        else:
            x[0] = "MUTATED"
        return True
    if isinstance(x, dict):
        if how % 2 == 0 or not x:
            x["MUTATED"] = "MUTATED"
        else:
            x.clear()
        return True
    if isinstance(x, set):
        x.add("MUTATED")
        return True
    if isinstance(x, bytearray):
        x.extend(b"!")
        return True
    if dc.is_dataclass(x) and not isinstance(x, type):
        for f in dc.fields(x):
            if deep_mutate(getattr(x, f.name), how):
                return True
        try:
            setattr(x, dc.fields(x)[0].name, "MUTATED")
            return True
        except Exception:
            return False
    if isinstance(x, tuple):
        return any(deep_mutate(e, how) for e in x)
    return False


def machine(col, seed, n_examples, steps):
    keys = sorted(TYPES)
    partner_of = {}
    for grp in PARTNERS:
        for k in grp:
            partner_of[k] = grp - {k}

    class M(RuleBasedStateMachine):
        def __init__(self):
            super().__init__()
            tl.clear_all()
            self.oracle = cold.Cold(cold_perform)
            self.hist = []
            self.live_results = []   # (key, object)
            self.live_inputs = []    # (op, key, object)
            self.used_since_clear = set()
            self.seen_calls = set()
            self.dirty = False       # a mutation or cache-affecting step happened

        def teardown(self):
            self.oracle.close()

        # -- the operations ---------------------------------------------------------------
        def _call(self, op, key, x, src):
            if col.out_of_time():
                return
            col.ev()
            col.label("op:" + op)
            before = _snap(x)
            hot = _run(op, key, x)
            if hot[0] == "skip":
                return
            want = self.oracle.query((op, key, src))
            step = (op, key, src)
            self.hist.append(list(step))
            case = {"history": [list(h) for h in self.hist]}
            repeated = (op, key, src) in self.seen_calls and self.dirty
            pair = bool(partner_of.get(key, set()) & self.used_since_clear)
            if repeated or pair:
                col.nt(core.digest(repr(self.hist)))
                col.label("nontrivial:" + ("pair" if pair else "repeat-after-mutation"))
            if want[0] == "harness-error":
                col.label("harness:cold-oracle-error")
                return
            if hot[:2] != tuple(want):
                diag = None
                for pk in sorted(partner_of.get(key, set()) & self.used_since_clear):
                    alt = self.oracle.query((op, pk, src))
                    if tuple(alt) == hot[:2]:
                        diag = f"served-by-equal-type:{pk}"
                        break
                if diag:
                    case["diag"] = diag
                col.violation("same-as-cold-process", case,
                              f"{op}({key}, {src}) after {len(self.hist) - 1} earlier steps: hot {_d(hot)}, cold {_d(want)}" + (f" [{diag}]" if diag else ""),
                              bucket=f"{op}|{key}", size=len(self.hist))
            if _snap(x) != before:
                col.violation("input-not-mutated", case, f"{op}({key}, {src}) changed its input", bucket=f"{op}|{key}", size=len(self.hist))
            if hot[0] == "ok" and op in ("marshal", "unmarshal", "decode", "api-decode"):
                r = hot[2]
                ids = mutable_ids(r)
                bare = key.endswith("(bare)")
                if ids:
                    for what, objs in (("an earlier result", self.live_results), ("an earlier input", [] if bare else self.live_inputs)):
                        for entry in objs:
                            shared = set(ids) & set(mutable_ids(entry[-1]))
                            if shared:
                                col.violation("no-shared-mutable-state", case,
                                              f"{op}({key}, {src}): result shares a mutable container with {what} ({entry[0]})",
                                              bucket=f"{op}|{key}|{what}", size=len(self.hist))
                                break
                    if not bare and set(ids) & set(mutable_ids(x)):
                        col.violation("no-shared-mutable-state", case, f"{op}({key}, {src}): result shares a mutable container with its own input",
                                      bucket=f"{op}|{key}|own-input", size=len(self.hist))
                    self.live_results.append((f"{op}({key})", r))
                    self.live_results = self.live_results[-12:]
            if mutable_ids(x):
                self.live_inputs.append((f"{op}({key})", x))
                self.live_inputs = self.live_inputs[-12:]
            self.used_since_clear.add(key)
            self.seen_calls.add((op, key, src))
            if len(self.hist) == steps - 1:
                col.sample({"history": [list(h) for h in self.hist[:10]], "steps": len(self.hist)})

        @rule(key=st.sampled_from(keys))
        def build(self, key):
            self._call("build", key, None, None)

        @rule(key=st.sampled_from(keys), i=st.integers(0, 5))
        def marshal(self, key, i):
            src = TYPES[key][1][i % len(TYPES[key][1])]
            self._call("marshal", key, eval(src, pool()), src)  # noqa: S307

        @rule(key=st.sampled_from(keys), i=st.integers(0, 7))
        def unmarshal(self, key, i):
            srcs = TYPES[key][2] + TYPES[key][1]
            src = srcs[i % len(srcs)]
            self._call("unmarshal", key, eval(src, pool()), src)  # noqa: S307

        @rule(key=st.sampled_from(keys), i=st.integers(0, 5))
        def encode_decode(self, key, i):
            if key.startswith("'Item'@"):
                return
            src = TYPES[key][1][i % len(TYPES[key][1])]
            self._call("encode", key, eval(src, pool()), src)  # noqa: S307
            cold_enc = self.oracle.query(("encode", key, src))
            if cold_enc[0] == "ok":
                b = cold_enc[1][1]
                if isinstance(b, bytes):
                    self._call("decode", key, b, repr(b))
                    self._call("api-encode", key, eval(src, pool()), src)  # noqa: S307
                    self._call("api-decode", key, b, repr(b))

        @precondition(lambda self: bool(self.seen_calls))
        @rule(i=st.integers(0, 10 ** 6))
        def repeat_earlier_call(self, i):
            """re-issue an earlier (operation, type, input): histories that repeat are where caches and
            shared state show"""
            calls = [h for h in self.hist if h[0] in ("marshal", "unmarshal", "decode", "api-decode") and h[2] is not None]
            if not calls:
                return
            op, key, src = calls[-1 - (i % min(len(calls), 6))]
            col.label("op:repeat")
            self._call(op, key, eval(src, pool()), src)  # noqa: S307

        @precondition(lambda self: bool(self.live_results))
        @rule(how=st.integers(0, 5))
        def mutate_latest_result(self, how):
            name, obj = self.live_results[-1]
            if deep_mutate(obj, how):
                self.hist.append(["mutate-result", name, how])
                self.dirty = True
                col.label("op:mutate-result")

        @precondition(lambda self: bool(self.live_results))
        @rule(i=st.integers(0, 11), how=st.integers(0, 5))
        def mutate_result(self, i, how):
            name, obj = self.live_results[i % len(self.live_results)]
            if deep_mutate(obj, how):
                self.hist.append(["mutate-result", name, how])
                self.dirty = True
                col.label("op:mutate-result")

        @precondition(lambda self: bool(self.live_inputs))
        @rule(i=st.integers(0, 11), how=st.integers(0, 5))
        def mutate_input(self, i, how):
            name, obj = self.live_inputs[i % len(self.live_inputs)]
            if deep_mutate(obj, how):
                self.hist.append(["mutate-input", name, how])
                self.dirty = True
                col.label("op:mutate-input")

        @rule(key=st.sampled_from(keys), i=st.integers(0, 11), op=st.sampled_from(["unmarshal", "unmarshal", "marshal"]), how=st.integers(0, 5))
        def call_mutate_same_call(self, key, i, op, how):
            """a call, its result edited in place by the caller (deep inside, too), the very same call again: what the second
            call returns is what a cold process returns"""
            srcs = TYPES[key][1] if op == "marshal" else TYPES[key][2] + TYPES[key][1]
            src = srcs[i % len(srcs)]
            col.label("op:call-mutate-same-call")
            n = len(self.live_results)
            self._call(op, key, eval(src, pool()), src)  # noqa: S307
            if self.live_results and (len(self.live_results) > n or n == 12):
                name, obj = self.live_results[-1]
                if deep_mutate(obj, how):
                    self.hist.append(["mutate-result", name, how])
                    self.dirty = True
            self._call(op, key, eval(src, pool()), src)  # noqa: S307

        @rule(g=st.integers(0, len(PARTNERS) - 1), flip=st.booleans(), op=st.sampled_from(["marshal", "unmarshal", "encode"]), i=st.integers(0, 7))
        def both_of_a_pair(self, g, flip, op, i):
            """the two members of an equal-but-distinct / base-and-subclass pair, one straight after the other"""
            grp = sorted(PARTNERS[g], reverse=flip)
            col.label("op:pair-sequence")
            for key in grp:
                if key.startswith("'Item'@") and op == "encode":
                    continue
                srcs = TYPES[key][1] if op != "unmarshal" else TYPES[key][2] + TYPES[key][1]
                src = srcs[i % len(srcs)]
                self._call(op, key, eval(src, pool()), src)  # noqa: S307

        @rule(key=st.sampled_from(sorted(BROKEN)), i=st.integers(0, 3), op=st.sampled_from(["marshal", "encode", "unmarshal", "unmarshal"]),
              retry=st.booleans())
        def fail_repair_retry(self, key, i, op, retry):
            """a call that fails on an invalid member, (the very same call again,) the caller repairs that very object,
            the same call again"""
            table = BROKEN_IN if op == "unmarshal" else BROKEN
            src = table[key][i % len(table[key])]
            x = eval(src, pool())  # noqa: S307
            self._call(op, key, x, src)
            if retry:
                self._call(op, key, x, src)
            pool()["repair"](x)
            self.dirty = True
            col.label("op:fail-repair-retry")
            self._call(op, key, x, f"repair({src})")

        @rule(key=st.sampled_from(keys), order=st.permutations(["marshal", "unmarshal", "encode", "build"]), n=st.integers(2, 4), i=st.integers(0, 7))
        def cold_start_sequence(self, key, order, n, i):
            """caches cleared, then several operations on ONE type in a drawn order: which routine of a type is built first,
            and what it saw first, must not matter to the next one"""
            tl.clear_all()
            self.used_since_clear = set()
            self.hist.append(["clear-caches", None, None])
            self.dirty = True
            col.label("op:cold-start-sequence")
            for op in order[:n]:
                if op == "build":
                    self._call("build", key, None, None)
                    continue
                if key.startswith("'Item'@") and op == "encode":
                    continue
                srcs = TYPES[key][1] if op != "unmarshal" else TYPES[key][2] + TYPES[key][1]
                src = srcs[i % len(srcs)]
                self._call(op, key, eval(src, pool()), src)  # noqa: S307

        @rule(key=st.sampled_from(sorted(SPLIT)), op=st.sampled_from(["marshal", "encode", "unmarshal"]), flip=st.booleans())
        def later_member_then_lookalike(self, key, op, flip):
            """one routine, two inputs of ONE class that belong to different members of the union: the later member's first"""
            pair = SPLIT[key][::-1] if flip else SPLIT[key]
            col.label("op:split-union-history")
            for src in pair:
                self._call(op, key, eval(src, pool()), src)  # noqa: S307

        @rule(key=st.sampled_from(["int", "float", "Decimal", "Union[int, str]", "list[int]", "Optional[int]", "datetime", "uuid", "E", "DC", "Node"]),
              junk=st.sampled_from(REJECTS), probe=st.integers(0, 2))
        def rejected_call_then_probes(self, key, junk, probe):
            """a call the routine rejects (or hands on to a later union member), handled - then probes whose outcome would show a
            process-wide setting or a flag left behind by the failed attempt"""
            col.label("op:rejected-then-probe")
            self._call("unmarshal", key, eval(junk, pool()), junk)  # noqa: S307
            for op, k2, src in PROBES[probe:] + PROBES[:probe]:
                self._call(op, k2, eval(src, pool()), src)  # noqa: S307

        @rule(key=st.sampled_from(keys), i=st.integers(0, 5), op=st.sampled_from(["marshal", "unmarshal"]))
        def same_object_twice(self, key, i, op):
            """ONE input object handed to the same operation twice: two calls, two results - they must not be one container
            (the bare-container types hand their *contents* through by contract, not themselves)"""
            srcs = TYPES[key][1] if op == "marshal" else TYPES[key][1] + TYPES[key][2]
            src = srcs[i % len(srcs)]
            x = eval(src, pool())  # noqa: S307
            col.label("op:same-object-twice")
            r1 = _run(op, key, x)
            r2 = _run(op, key, x)
            col.ev()
            # these two calls are part of the history like any other: they build (and leave behind) the routines of `key`
            if r1[0] != "skip":
                self.hist.append([op, key, src])
                self.hist.append([op, key, src])
                self.used_since_clear.add(key)
            if r1[0] == "ok" and r2[0] == "ok" and op == "marshal":
                shared = set(mutable_ids(r1[2])) & set(mutable_ids(r2[2]))
                own = {id(r1[2])} & {id(r2[2])} if isinstance(r1[2], (list, dict, set)) else set()
                if own or (shared and not key.endswith("(bare)")):
                    col.violation("no-shared-mutable-state", {"history": [list(h) for h in self.hist], "twice": True},
                                  f"{op}({key}, x) called twice with ONE input object x = {src}: the two results are (or share) one mutable container",
                                  bucket=f"{op}|{key}|same-object-twice", size=len(self.hist))

        @rule()
        def clear_caches(self):
            tl.clear_all()
            self.used_since_clear = set()
            self.hist.append(["clear-caches", None, None])
            self.dirty = True
            col.label("op:clear-caches")

    run_state_machine_as_test(
        hypothesis.seed(seed)(M),
        settings=settings(max_examples=n_examples, stateful_step_count=steps, database=None, deadline=None,
                          phases=[Phase.generate], suppress_health_check=list(HealthCheck), report_multiple_bugs=False),
    )


def _d(o):
    return f"raises {o[1]}" if o[0] == "exc" else "returns " + repr(o[1])[:140]


def plan(tier, seed):
    n = 60 if tier == "quick" else 800
    return [{"seed": seed * 1000 + k, "n": n} for k in range(16)]


def run_shard(shard, col):
    pool()
    machine(col, shard["seed"], shard["n"], 50)


def replay(clause, case, col):
    """re-run the recorded history step by step against a fresh cold oracle"""
    pool()
    tl.clear_all()
    oracle = cold.Cold(cold_perform)
    live = []
    try:
        hist = []
        for op, key, src in case["history"]:
            hist.append([op, key, src])
            if op == "clear-caches":
                tl.clear_all()
                continue
            if op in ("mutate-result", "mutate-input"):
                for name, obj in reversed(live):
                    if name == key and deep_mutate(obj, src):
                        break
                continue
            x = eval(src, pool()) if src is not None else None  # noqa: S307
            col.ev()
            hot = _run(op, key, x)
            want = oracle.query((op, key, src))
            if hot[0] == "ok":
                live.append((f"{op}({key})", hot[2]))
            live.append((f"{op}({key})", x))
            if hot[:2] != tuple(want) and want[0] != "harness-error":
                c = {"history": hist}
                if case.get("diag"):
                    c["diag"] = case["diag"]
                col.violation("same-as-cold-process", c, f"{op}({key}, {src}): hot {_d(hot)}, cold {_d(want)}", bucket=f"{op}|{key}", size=len(hist))
                return
    finally:
        oracle.close()
