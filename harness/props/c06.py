"""C06 - marshalled output is plain JSON-compatible data, freshly built.

Generator : fully annotated programs of U (no bytes-like members) x valid values, each also in a
            *subclass-instance* variant where the annotation permits it: IntEnum / int subclasses
            for int, str / float subclasses, pendulum DateTime/Date/Time/Duration for stdlib
            temporals, OrderedDict for mappings, tuple / deque for abstract sequence spellings;
            plus (Literal[...], non-member) pairs with the 1/True/1.0 look-alikes labelled.
Oracle    : json_plain(m) (exact builtin classes, primitive keys); json.dumps(m, allow_nan=False)
            succeeds; two calls give equal snapshots; no mutable container of m is shared with v
            or between the two results; v unchanged; Literal non-member -> ValueError.
"""

from __future__ import annotations

import collections
import datetime
import enum
import json

import pendulum

from harness import progs, tl
from harness import universe as U
from harness.core import st
from harness import retry
from harness.oracles import exc_bucket, json_plain, mutable_ids, snapshot

ID = "C06"
RULE = ("programs of U x 6 valid values, each plain and with subclass instances substituted; plus Literal non-member "
        "probes; non-trivial = the value contains a mutable container or a substituted subclass instance, or the probe "
        "is a look-alike non-member (1/True/1.0/'1'); distinct by (spec, value source, variant)")
ASSUMPTIONS = ["Any / unparameterised containers are excluded by the statement (contents passed through by contract)",
               "subclass instances are not substituted at Literal positions (a str subclass is not the literal)"]
TECHNIQUE = "property-based testing: validity predicate (json_plain + stdlib json encoder), determinism and aliasing invariants over generated programs with subclass-instance substitution"
LEVEL_TEXT = ("Exploration over generated annotations and values, including subclass instances that exercise every "
              "'cast to the plain type' path; each marshalled result is checked class-exactly, for aliasing with the "
              "input and for determinism.")
RULE_EXTRA = "two values per program also go through fail - repair in place - retry; the second call of 'same on every call' takes another route (function / routine object / codec step)"
LEVEL_NOTE = "trusts the stdlib json encoder as the judge of JSON compatibility"


class MyInt(int):
    pass


class MyStr(str):
    pass


class MyFloat(float):
    pass


class IE(enum.IntEnum):
    A = 0
    B = 1
    C = 7


def subclassify(spec, v, mat, flip):
    """Replace parts of v by subclass instances where the annotation permits. `flip()` -> bool."""
    R = lambda s, x: subclassify(s, x, mat, flip)  # noqa: E731
    k = spec["k"]
    if k == "scalar":
        t = spec["t"]
        if not flip():
            return v
        if t == "int" and type(v) is int:
            try:
                return IE(v)
            except ValueError:
                return MyInt(v)
        if t == "str":
            return MyStr(v)
        if t == "float":
            return MyFloat(v)
        if t == "datetime" and 2 < v.year < 9998:
            return pendulum.instance(v)
        if t == "date" and type(v) is datetime.date:
            return pendulum.Date(v.year, v.month, v.day)
        if t == "time":
            return pendulum.Time(v.hour, v.minute, v.second, v.microsecond, tzinfo=v.tzinfo)
        if t == "timedelta" and datetime.timedelta(0) <= v < datetime.timedelta(days=20000):
            return pendulum.duration(days=v.days, seconds=v.seconds, microseconds=v.microseconds)
        return v
    if k in ("newtype", "alias", "stralias", "final", "classvar"):
        return R(spec["a"][0], v)
    if k == "ref":
        return R(mat.resolve(spec), v)
    if k == "optional":
        return None if v is None else R(spec["a"][0], v)
    if k == "union":
        for s in spec["a"]:
            if s["k"] != "none" and U.conforms(s, v, mat, strict=True) is None:
                return R(s, v)
        return v
    if k in ("list", "deque", "vtuple"):
        xs = [R(spec["a"][0], x) for x in v]
        sp = spec.get("sp", "")
        if k == "list" and sp.split(".")[-1] in ("Sequence", "Collection", "Iterable") and flip():
            return tuple(xs) if flip() else collections.deque(xs)
        return type(v)(xs)
    if k in ("set", "frozenset"):
        return v  # elements must stay hashable-equal; leave as is
    if k == "tuple":
        return tuple(R(s, x) for s, x in zip(spec["a"], v))
    if k == "dict":
        items = [(kk, R(spec["a"][1], vv)) for kk, vv in v.items()]
        if flip():
            return collections.OrderedDict(items)
        return dict(items)
    if k == "class":
        fl = spec["flavour"]
        if fl.startswith("typeddict"):
            return {f["n"]: R(f["t"], v[f["n"]]) for f in spec["fields"] if f["n"] in v}
        kw = {f["n"]: R(f["t"], getattr(v, f["n"])) for f in spec["fields"]}
        try:
            return type(v)(**kw)
        except Exception:
            return v
    return v


def _has_mutable(v):
    return bool(mutable_ids(v))


def _walk_leaves(x, depth=0):
    if depth > 50:
        return
    if isinstance(x, (str, bytes, bytearray, int, float)) or x is None:
        yield x       # (also the instances of their subclasses)
    elif isinstance(x, dict):
        for k_, v_ in x.items():
            yield from _walk_leaves(k_, depth + 1)
            yield from _walk_leaves(v_, depth + 1)
    elif isinstance(x, (list, tuple, set, frozenset)) or type(x).__name__ == "deque":
        for y in x:
            yield from _walk_leaves(y, depth + 1)
    elif hasattr(x, "__dataclass_fields__") or (hasattr(x, "__dict__") and not isinstance(x, type)) or hasattr(type(x), "__slots__") and not isinstance(x, (str, bytes, int, float)):
        names = list(getattr(x, "__dataclass_fields__", ())) or list(getattr(x, "__dict__", {})) or [n for c in type(x).__mro__ for n in getattr(c, "__slots__", ()) if isinstance(n, str)]
        for n in names:
            if hasattr(x, n):
                yield from _walk_leaves(getattr(x, n), depth + 1)
    else:
        yield x


def _nonfinite_text_captured(v, m):
    """the output holds a non-finite float although the value holds none - and the value holds a *text* that float() reads as
    inf / nan ("inf", "Infinity", "nan"): a str member's value captured by an earlier float member of a union (K-UNIONINF)"""
    import math
    out_bad = any(isinstance(x, float) and not math.isfinite(x) for x in _walk_leaves(m))
    in_bad = any(isinstance(x, float) and not math.isfinite(x) for x in _walk_leaves(v))
    if not out_bad or in_bad:
        return False
    for x in _walk_leaves(v):
        if isinstance(x, str):
            try:
                if not math.isfinite(float(x)):
                    return True
            except ValueError:
                pass
    return False


def check_value(p, v, col, variant):
    T, mat = p.T, p.mat
    vsrc = p.src(v)
    col.ev()
    col.label(f"variant:{variant}")
    nontriv = variant == "subclass" or _has_mutable(v)
    if nontriv:
        col.nt(p.key + vsrc + variant)
        if len(vsrc) < 240:
            col.sample({"T": mat.root_expr, "v": vsrc, "variant": variant})
    case = p.case(value=vsrc, variant=variant)
    before = snapshot(v)
    k1, m1 = tl.call(tl.marshal, v, t=T)
    if k1 == "exc":
        col.violation("marshal-succeeds", case, f"marshal({vsrc[:160]}, t={mat.root_expr}) raised {tl.exc_name(m1)}: {m1}",
                      bucket=exc_bucket(m1))
        return
    # the second call goes another way to the same marshaller: the routine object or the codec's own marshal step
    if len(vsrc) % 3 == 0:
        k2, m2 = tl.call(tl.marshal, v, t=T)
    elif len(vsrc) % 3 == 1:
        k2, m2 = tl.call(lambda: tl.marshaller(T)(v))
    else:
        k2, m2 = tl.call(lambda: tl.codec(T).marshal(v))
    bad = json_plain(m1)
    if bad:
        col.violation("json-plain", case, f"marshal({vsrc[:160]}, t={mat.root_expr}) = {m1!r:.160}: {bad}",
                      bucket=bad.split(" of class ")[-1][:60])
    else:
        try:
            json.dumps(m1, allow_nan=False)
        except Exception as e:  # noqa: BLE001
            c_ = dict(case)
            if _nonfinite_text_captured(v, m1):
                c_["diag"] = "nonfinite-text-captured-by-float-member"
            col.violation("json-encodable", c_, f"json.dumps rejected {m1!r:.160}: {e}", bucket=type(e).__name__)
    if k2 == "exc" or snapshot(m2) != snapshot(m1):
        col.violation("deterministic", case, f"second call gave {m2!r:.160}, first {m1!r:.160}")
    ids_v = mutable_ids(v)
    ids_1 = mutable_ids(m1)
    shared = set(ids_v) & set(ids_1)
    if shared:
        col.violation("no-sharing-with-input", case, f"{len(shared)} mutable container(s) of the result are objects of the input, e.g. {ids_1[next(iter(shared))]!r:.100}")
    if k2 == "ok":
        shared2 = set(ids_1) & set(mutable_ids(m2))
        if shared2:
            col.violation("no-sharing-between-calls", case, "two results share a mutable container")
    if snapshot(v) != before:
        col.violation("input-unchanged", case, "marshal modified its input")


LITERAL_PROBES = ["1", "True", "1.0", "'1'", "0", "False", "None", "'a'", "'null'", "2", "''", "'b'", "0.0", "-1", "'x'", "[]"]


def check_literal(p, col):
    """Every Literal node directly reachable as the root (through wrappers) is probed with non-members."""
    spec = U.strip(p.spec)
    if spec["k"] != "literal":
        return
    for src in LITERAL_PROBES:
        x = eval(src)  # noqa: S307
        member = any(type(x) is type(v) and x == v for v in spec["values"])
        if member:
            continue
        lookalike = any(x == v for v in spec["values"])
        col.ev()
        col.label("literal-probe:lookalike" if lookalike else "literal-probe:plain")
        col.nt(p.key + "lit" + src)
        k, m = tl.call(tl.marshal, x, t=p.T)
        if not (k == "exc" and isinstance(m, ValueError)):
            col.violation("literal-non-member-rejected", p.case(value=src, variant="literal-probe"),
                          f"marshal({src}, t={p.mat.root_expr}) " + (f"returned {m!r}" if k == "ok" else f"raised {tl.exc_name(m)}"),
                          bucket="lookalike" if lookalike else "plain")


def per_program(p):
    col = p.col
    if p.data is not None and p.draw(st.integers(0, 2)) == 0:
        p.warm("unmarshaller")   # the routines of the other direction built first
    check_literal(p, col)
    try:
        vs = U.values(p.spec, p.mat)
    except U._Exhausted:
        return
    for i_ in range(6):
        v = p.draw(vs)
        check_value(p, v, col, "plain")
        if i_ in (1, 4):
            # "the same on every call" - also the call after one that failed on this very object and was handled
            pick = p.draw(st.integers(0, 10 ** 6))
            r = retry.retry_after_failure(v, lambda o: tl.call(tl.marshal, o, t=p.T), pick)
            if r is not None:
                col.ev()
                failed, want, got = r
                col.label(f"retry:first-call-{'failed' if failed else 'passed'}")
                if failed:
                    col.nt(p.key + p.src(v) + "retry")
                if got != want:
                    col.violation("same-on-every-call", p.case(value=p.src(v), variant="retry", pick=pick),
                                  f"T={p.mat.root_expr}: marshal failed on an invalid member, the member was repaired in place, the same call then "
                                  f"{'raised ' + got[1] if got[0] == 'exc' else 'returned something else'}", bucket=f"retry|{got[0]}")
        flips = iter(p.draw(st.lists(st.booleans(), min_size=64, max_size=64)))
        sv = subclassify(p.spec, v, p.mat, lambda: next(flips, False))
        if snapshot(sv) != snapshot(v):
            check_value(p, sv, col, "subclass")


@st.composite
def private_member_specs(draw):
    """A structured class with an underscore-led member of a type that needs conversion (a constructor parameter for the
    classes, a key for the TypedDict), at the root or inside a container. Whatever the library decides to do with such a
    member - leave it out or write it - what it writes must be plain data built afresh."""
    S = U.S
    leaf = draw(st.sampled_from([S("Decimal"), S("UUID"), S("datetime"), {"k": "list", "sp": "list", "a": [S("Decimal")]},
                                 {"k": "dict", "sp": "dict", "a": [S("str"), S("date")]}, {"k": "list", "sp": "list", "a": [{"k": "list", "sp": "list", "a": [S("int")]}]}]))
    fl = draw(st.sampled_from(["dataclass", "dc_slots", "dc_frozen", "dc_kwonly", "plain", "slots", "typeddict", "typeddict_partial"]))
    pname = draw(st.sampled_from(["_p", "_rows", "_x1", "_"]))  # (no double underscore: class bodies mangle such names)
    fields = [{"n": "a", "t": S("int")}, {"n": pname, "t": leaf}]
    if draw(st.booleans()):
        fields.reverse()
    c = {"k": "class", "name": "Priv", "mod": 0, "flavour": fl, "future": draw(st.booleans()), "fields": fields}
    shape = draw(st.sampled_from(["class", "list", "dict", "optional"]))
    return c if shape == "class" else {"list": {"k": "list", "sp": "list", "a": [c]}, "dict": {"k": "dict", "sp": "dict", "a": [S("str"), c]},
                                       "optional": {"k": "optional", "sp": "Optional", "a": [c]}}[shape]


@st.composite
def classvar_member_specs(draw):
    """A plain (non-dataclass) annotated class with a ClassVar member of a type that needs conversion - such a class hands its
    class variables out with its fields; what is written for them must be plain data too."""
    S = U.S
    leaf = draw(st.sampled_from([S("Decimal"), S("UUID"), S("date"), S("datetime"), S("timedelta"), S("PurePosixPath"), S("Fraction")]))
    fl = draw(st.sampled_from(["plain", "slots"]))
    c = {"k": "class", "name": "WithCV", "mod": 0, "flavour": fl, "future": draw(st.booleans()),
         "fields": [{"n": "a", "t": S("int")}, {"n": "b", "t": S("str"), "default": True}], "classvars": [{"n": "kind", "t": leaf}]}
    shape = draw(st.sampled_from(["class", "list", "dict"]))
    return c if shape == "class" else {"list": {"k": "list", "sp": "list", "a": [c]}, "dict": {"k": "dict", "sp": "dict", "a": [S("str"), c]}}[shape]


def plan(tier, seed):
    n = 300 if tier == "quick" else 2000
    depth = 4 if tier == "quick" else 6
    shards = [{"seed": seed * 1000 + k, "n": n, "depth": depth, "adversarial": k % 4 == 3} for k in range(16)]
    shards += [{"seed": seed * 1000 + 80 + k, "n": 150 if tier == "quick" else 2000, "private": True} for k in range(2)]
    shards += [{"seed": seed * 1000 + 85, "n": 100 if tier == "quick" else 1000, "classvar": True}]
    return shards


def run_shard(shard, col):
    if shard.get("classvar"):
        progs.drive_programs(col, seed=shard["seed"], n=shard["n"], spec_strategy=classvar_member_specs(), per_program=per_program)
        return
    if shard.get("private"):
        progs.drive_programs(col, seed=shard["seed"], n=shard["n"], spec_strategy=private_member_specs(), per_program=per_program)
        return
    progs.drive_programs(col, seed=shard["seed"], n=shard["n"],
                         spec_strategy=U.root_specs(max_depth=shard["depth"], mods=3 if shard.get("adversarial") else 2, adversarial=bool(shard.get("adversarial"))), per_program=per_program)


def replay(clause, case, col):
    def per_case(p):
        if case.get("variant") == "literal-probe":
            check_literal(p, col)
            return
        ns = dict(p.mat.ns)
        import harness.props.c06 as _self
        import harness
        ns.update(pendulum=pendulum, harness=harness)
        v = eval(case["value"], ns)  # noqa: S307
        if case.get("variant") == "retry":
            r = retry.retry_after_failure(v, lambda o: tl.call(tl.marshal, o, t=p.T), case["pick"])
            col.ev()
            if r is not None and r[2] != r[1]:
                col.violation("same-on-every-call", case, f"after a handled failure on this object: {r[2][0]}", bucket=f"retry|{r[2][0]}")
            return
        check_value(p, v, col, case.get("variant", "plain"))

    progs.replay_program(case, col, per_case)


def cg_plan(seed):
    """coverage-guided shards of the thorough tier (harness/cg.py): same strategies and check functions, choices from libFuzzer"""
    return [{"seed": seed * 1000 + 900 + k, "n": 0, "depth": 4, "cg": {"runs": 6000}} for k in range(4)]
