"""C16 - TypeContext lookups see through aliases and references (model-based, stateful).

Keys: a closed family synthesised in one module: 5 base classes (dataclass D, Enum E,
NamedTuple N, the nested class X = Outer.Inner, the typing.Generic subclass G = Box) and the builtin int (base I, whose naming reference lives in another module than its aliases) x {itself, NewType, TypeAliasType(value), TypeAliasType('string'), Final[..],
ForwardRef(name, module), NewType of the NewType, Final[alias], alias of the NewType}.  Operations: insert fresh key, [], get(k, default), `in` (stored keys).

Oracle: a reference model (write-once dict + the documented three-step lookup). The harness
knows each key's unwrapped form and naming reference *by construction*.

* exhaustive part: breadth-first exploration of all operation sequences up to length 6 for every
  pair of base types, with prefix-state deduplication (two prefixes that leave the same context
  contents have the same futures);
* random part: a Hypothesis RuleBasedStateMachine, up to 40 steps over all 55 keys.
"""

from __future__ import annotations

import itertools
import sys
import types

import hypothesis
from hypothesis import HealthCheck, Phase, settings
from hypothesis.stateful import RuleBasedStateMachine, rule, run_state_machine_as_test

from harness import core, tl
from harness.core import st

ID = "C16"
RULE = ("exhaustive BFS of all operation sequences of length <= 5 (quick) or 6 (thorough) per pair of base types with state "
        "deduplication, plus random state-machine histories of <= 40 steps over 55 keys; non-trivial = a lookup "
        "answered through the unwrapped-form or forward-reference path, or any lookup issued after a lookup "
        "that memoised an alias key; distinct by (context contents before the operation, operation)")
ASSUMPTIONS = ["base types are module-level classes so that 'the forward reference naming it' is one well-defined object",
               "internal memoisation is not observed (no len()/keys() comparison)"]
TECHNIQUE = "model-based testing: exhaustive bounded BFS over operation sequences with state deduplication + Hypothesis rule-based state machine, compared step by step with a reference model"
LEVEL_TEXT = ("Every operation sequence up to length 5 (quick) / 6 (thorough) over the 16 keys of each pair of base types is executed against the "
              "real TypeContext and a 20-line reference model (complete for that bound); longer random histories over all "
              "37 keys are explored with a Hypothesis state machine.")
LEVEL_NOTE = "trusts the reference model's reading of the three-step lookup order and typing.ForwardRef equality (name, module)"
EXHAUSTIVE_NOTE = "all sequences of length <= 5 (quick) / <= 6 (thorough) over {insert, [], get, in} x 16 keys for each of 6 pairs of base types (deduplicated by reachable context contents)"

MOD = "c16_keys_mod"
SRC = '''
import dataclasses, enum, typing
from typing import NewType, Final, NamedTuple, ForwardRef, TypeAliasType

@dataclasses.dataclass
class D:
    x: int

class E(enum.Enum):
    A = 1

class N(NamedTuple):
    y: int

_T = typing.TypeVar("_T")
class Box(typing.Generic[_T]):     # base G: a user class deriving from typing.Generic (bare, unparameterised)
    def __init__(self, item=None):
        self.item = item

class Outer:
    @dataclasses.dataclass
    class Inner:          # base X: a class nested in a class, named by the dotted text "Outer.Inner"
        z: int

KEYS = {}
# base I is the builtin `int`: its aliases live in this module, the class itself does not, so the reference a
# string-valued alias unwraps to (module = this module) and the reference naming the class (module = builtins) differ
for _n, _b, _txt in (("D", D, "D"), ("E", E, "E"), ("N", N, "N"), ("I", int, "int"), ("X", Outer.Inner, "Outer.Inner"), ("G", Box, "Box")):
    KEYS[_n, "self"] = _b
    KEYS[_n, "newtype"] = NewType(_n + "_new", _b)
    KEYS[_n, "alias"] = TypeAliasType(_n + "_alias", _b)
    KEYS[_n, "stralias"] = TypeAliasType(_n + "_str", _txt)
    KEYS[_n, "final"] = Final[_b]
    KEYS[_n, "ref"] = ForwardRef(_txt, module=__name__)
    if _b.__module__ != __name__:
        KEYS[_n, "nref"] = ForwardRef(_txt, module=_b.__module__)
    KEYS[_n, "newtype2"] = NewType(_n + "_new2", KEYS[_n, "newtype"])        # NewType of a NewType
    KEYS[_n, "finalalias"] = Final[KEYS[_n, "alias"]]                        # Final[alias]
    KEYS[_n, "aliasnew"] = TypeAliasType(_n + "_aliasnew", KEYS[_n, "newtype"])  # alias whose value is a NewType
'''

FORMS = ["self", "newtype", "alias", "stralias", "final", "ref", "newtype2", "finalalias", "aliasnew"]
BASES = ["D", "E", "N", "I", "X", "G"]
BFS_PAIRS = [("D", "E"), ("D", "N"), ("E", "N"), ("I", "D"), ("X", "D"), ("G", "E")]


def forms_of(base):
    return FORMS + (["nref"] if base == "I" else [])


def naming_ref(base):
    """the forward reference naming the base class (what a lookup of the class itself falls back to)"""
    return (base, "nref") if base == "I" else (base, "ref")
_KEYS = None


def keys():
    global _KEYS
    if _KEYS is None:
        m = types.ModuleType(MOD)
        sys.modules[MOD] = m
        exec(SRC, m.__dict__)  # noqa: S102
        _KEYS = m.KEYS
    return _KEYS


def kname(k):
    return f"{k[0]}.{k[1]}"


_FALSY = {"self": None, "ref": 0, "nref": "", "alias": False, "final": ()}


def value_of(k):
    """stored values: falsy ones under the keys other keys resolve to (a stored None / 0 / '' is a value, not an absence)"""
    if k[1] in _FALSY and k[0] in ("D", "I"):
        return _FALSY[k[1]]
    return f"v:{k[0]}.{k[1]}"


# ---- reference model ------------------------------------------------------------------------

MISS = ("<miss>",)


def model_lookup(stored: dict, k):
    if k in stored:
        return stored[k]
    base, form = k
    if form in ("ref", "nref"):
        return MISS
    unwrapped = (base, "ref") if form == "stralias" else (base, "self")
    if unwrapped != k and unwrapped in stored:
        return stored[unwrapped]
    if form == "self" and naming_ref(base) in stored:
        return stored[naming_ref(base)]
    return MISS


def model_path(stored: dict, k):
    if k in stored:
        return "direct"
    base, form = k
    if form in ("ref", "nref"):
        return "miss"
    unwrapped = (base, "ref") if form == "stralias" else (base, "self")
    if unwrapped != k and unwrapped in stored:
        return "unwrapped"
    if form == "self" and naming_ref(base) in stored:
        return "forwardref"
    return "miss"


# ---- applying one operation to the real context ---------------------------------------------

DEFAULT = ("<default>",)


def apply(ctx, op, k):
    K = keys()[k]
    if op == "insert":
        ctx[K] = value_of(k)
        return ("ok", None)
    if op == "getitem":
        try:
            return ("ok", ctx[K])
        except KeyError:
            return ("KeyError",)
        except Exception as e:  # noqa: BLE001
            return ("exc", tl.exc_name(e))
    if op == "get":
        try:
            return ("ok", ctx.get(K, DEFAULT))
        except Exception as e:  # noqa: BLE001
            return ("exc", tl.exc_name(e))
    if op == "in":
        try:
            return ("ok", K in ctx)
        except Exception as e:  # noqa: BLE001
            return ("exc", tl.exc_name(e))
    raise AssertionError(op)


def expected(stored, op, k):
    if op == "insert":
        return ("ok", None)
    if op == "in":
        return ("ok", True)
    r = model_lookup(stored, k)
    if op == "getitem":
        return ("KeyError",) if r is MISS else ("ok", r)
    return ("ok", DEFAULT if r is MISS else r)


def contents(ctx):
    inv = {id(v): k for k, v in keys().items()}
    out = []
    for K, v in dict.items(ctx):
        out.append((inv.get(id(K)) or _match(K), v))
    return frozenset(out)


def _match(K):
    for k, v in keys().items():
        try:
            if v == K and type(v) is type(K):
                return k
        except Exception:
            pass
    return ("?", repr(K))


def rebuild(state):
    ctx = tl.typelib.ctx.TypeContext()
    for k, v in sorted(state, key=repr):
        dict.__setitem__(ctx, keys()[k], v)
    return ctx


# ---- exhaustive BFS ------------------------------------------------------------------------------

def bfs(pair, depth, col):
    ks = [(b, f) for b in pair for f in forms_of(b)]
    # node: (impl contents, model stored (frozenset of items), memo_happened)
    start = (frozenset(), frozenset(), False)
    frontier = {start: ()}
    raw_hist = {start: ()}      # node -> the operations (with key objects) that lead to it
    seen = {start}
    for d in range(depth):
        nxt = {}
        for (state, stored_f, memo), hist in frontier.items():
            stored = dict(stored_f)
            for op in ("insert", "getitem", "get", "in"):
                for k in ks:
                    if op == "insert" and k in stored:
                        continue
                    if op == "in" and k not in stored:
                        continue
                    tl.inspection.unwrap.cache_clear() if (d == 0 and op == "insert") else None
                    # the context is the one this very history produced - not a fresh one given the same entries: whatever an
                    # implementation keeps besides its entries is part of the state
                    ctx = tl.typelib.ctx.TypeContext()
                    for op_, k_ in raw_hist.get((state, stored_f, memo), ()):
                        apply(ctx, op_, k_)
                    got = apply(ctx, op, k)
                    exp = expected(stored, op, k)
                    col.ev()
                    path = model_path(stored, k) if op in ("getitem", "get") else op
                    col.label(f"path:{path}")
                    if path in ("unwrapped", "forwardref") or (memo and op != "insert"):
                        col.nt(repr((sorted(state, key=repr), op, k)))
                        if path != "direct":
                            col.sample({"history": [list(map(str, h)) for h in hist], "op": op, "key": kname(k),
                                        "answered_via": path})
                    ops = [*hist, (op, kname(k))]
                    if got != exp:
                        col.violation("agrees-with-model", {"ops": [list(o) for o in ops]},
                                      f"after {hist}: {op}({kname(k)}) -> {got!r}, model says {exp!r}",
                                      bucket=f"{op}|{k[1]}|{path}", size=len(ops))
                        continue
                    new_stored = dict(stored)
                    if op == "insert":
                        new_stored[k] = value_of(k)
                    new_state = contents(ctx)
                    node = (new_state, frozenset(new_stored.items()),
                            memo or (len(new_state) > len(new_stored)))
                    if node not in seen:
                        seen.add(node)
                        nxt[node] = tuple(ops)
                        raw_hist[node] = (*raw_hist.get((state, stored_f, memo), ()), (op, k))
        frontier = nxt
        col.label("bfs-states", len(nxt))
    col.exhaustive_done = True


# ---- random state machine ----------------------------------------------------------------------

def machine(col, seed, n_examples, steps):
    all_keys = [(b, f) for b in BASES for f in forms_of(b)]

    class M(RuleBasedStateMachine):
        def __init__(self):
            super().__init__()
            tl.clear_all()
            self.ctx = tl.typelib.ctx.TypeContext()
            self.stored = {}
            self.hist = []
            self.memo = False

        def _do(self, op, k):
            if col.out_of_time():
                return
            got = apply(self.ctx, op, k)
            exp = expected(self.stored, op, k)
            col.ev()
            path = model_path(self.stored, k) if op in ("getitem", "get") else op
            col.label(f"path:{path}")
            ops = [*self.hist, (op, kname(k))]
            if path in ("unwrapped", "forwardref") or (self.memo and op != "insert"):
                col.nt(repr((sorted(self.stored), op, k)))
            if got != exp:
                col.violation("agrees-with-model", {"ops": [list(o) for o in ops]},
                              f"{op}({kname(k)}) -> {got!r}, model says {exp!r} after {self.hist}",
                              bucket=f"{op}|{k[1]}|{path}", size=len(ops))
            if op == "insert":
                self.stored[k] = value_of(k)
            self.hist = ops
            if len(dict.keys(self.ctx)) > len(self.stored):
                self.memo = True
            if len(self.hist) == steps:
                col.sample({"history": [list(o) for o in self.hist[:12]], "len": len(self.hist)})

        @rule(k=st.sampled_from(all_keys))
        def insert(self, k):
            if k in self.stored:
                return
            self._do("insert", k)

        @rule(k=st.sampled_from(all_keys))
        def getitem(self, k):
            self._do("getitem", k)

        @rule(k=st.sampled_from(all_keys))
        def get(self, k):
            self._do("get", k)

        @rule(data=st.data())
        def contains(self, data):
            if not self.stored:
                return
            k = data.draw(st.sampled_from(sorted(self.stored)))
            self._do("in", k)

    run_state_machine_as_test(
        hypothesis.seed(seed)(M),
        settings=settings(max_examples=n_examples, stateful_step_count=steps, database=None, deadline=None,
                          phases=[Phase.generate], suppress_health_check=list(HealthCheck),
                          report_multiple_bugs=False),
    )


# ---- runner interface -------------------------------------------------------------------------------

def plan(tier, seed):
    # 18 keys per pair of bases: length 5 is complete in seconds, length 6 (thorough) takes about a minute
    depth = 5 if tier == "quick" else 6
    shards = [{"kind": "bfs", "pair": list(p), "depth": depth} for p in BFS_PAIRS]
    n = 150 if tier == "quick" else 3000
    for k in range(13):
        shards.append({"kind": "random", "seed": seed * 1000 + k, "n": n})
    return shards


def run_shard(shard, col):
    keys()
    if shard["kind"] == "bfs":
        bfs(tuple(shard["pair"]), shard["depth"], col)
    else:
        machine(col, shard["seed"], shard["n"], 40)


def replay(clause, case, col):
    keys()
    tl.clear_all()
    ctx = tl.typelib.ctx.TypeContext()
    stored = {}
    hist = []
    for op, kn in case["ops"]:
        b, f = kn.split(".")
        k = (b, f)
        got = apply(ctx, op, k)
        exp = expected(stored, op, k)
        col.ev()
        hist.append((op, kn))
        if got != exp:
            col.violation("agrees-with-model", {"ops": [list(o) for o in hist]},
                          f"{op}({kn}) -> {got!r}, model says {exp!r}", bucket=f"{op}|{f}", size=len(hist))
            return
        if op == "insert":
            stored[k] = value_of(k)
