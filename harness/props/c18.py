"""C18 - serdes.iteritems / serdes.itervalues are lossless and non-destructive.

The generator *constructs* x from a category and content, so the category (mapping, structured
object, named tuple, iterable of pairs, other iterable, text) is known by construction and the
reference is a one-liner per category. Mixed iterables (some elements are pairs, some not) are
only checked for losslessness.
"""

from __future__ import annotations

import collections
import dataclasses
import types
import typing

from harness import core, tl
from harness.core import st
from harness.oracles import snapshot

ID = "C18"
RULE = ("objects constructed per category (4 mapping classes, 6 structured flavours, named tuples, 6 re-iterable "
        "and 3 one-shot iterable kinds of pairs / non-pairs / mixed, str/bytes); non-trivial = one-shot iterator, "
        "empty iterable, named tuple or sequence whose first element is a 2-element value, private or ClassVar "
        "fields present; distinct by (category, container kind, content)")
ASSUMPTIONS = ["'iterable of pairs' is judged only when all or none of the elements are 2-element collections",
               "structured classes take no constructor arguments (fields set afterwards) except dataclasses / named tuples"]
TECHNIQUE = "property-based testing: category-directed object construction, one-line reference model per category, multiset/ordering and input-snapshot invariants"
LEVEL_TEXT = ("Exploration over constructed inputs of every category named in the property, with one-shot iterators, "
              "empty inputs and pair look-alikes generated deliberately; each case compares the exact yielded sequence "
              "with the category's reference and checks the input is unchanged.")
LEVEL_NOTE = "trusts the harness's own category labels (known by construction) and dataclasses.fields / _fields as the meaning of 'field'"

iteritems = tl.serdes.iteritems
itervalues = tl.serdes.itervalues

# ---- content strategies -------------------------------------------------------------------

scalars = st.one_of(st.integers(-5, 5), st.sampled_from(["a", "ab", "abc", "", "1", "null"]), st.none(),
                    st.booleans(), st.floats(allow_nan=False, width=16))
two_elem = st.one_of(
    st.tuples(scalars, scalars),
    st.lists(scalars, min_size=2, max_size=2),
    st.sampled_from(["ab", "xy"]),
)
non_pair = st.one_of(st.integers(-5, 5), st.sampled_from(["a", "abc", ""]), st.none(),
                     st.tuples(scalars, scalars, scalars), st.tuples(scalars), st.lists(scalars, max_size=1),
                     # empty and falsy elements: the values a "nothing there" sentinel is most easily confused with
                     st.sampled_from([(), [], {}, frozenset(), 0, False, 0.0, b"", ""]))
anyval = st.one_of(scalars, two_elem, st.lists(scalars, max_size=3), st.dictionaries(st.sampled_from("abc"), scalars, max_size=2))
hashable_val = st.one_of(st.integers(-5, 5), st.sampled_from(["a", "ab", "abc"]), st.none(), st.tuples(st.integers(0, 3), st.integers(0, 3)))
keys = st.one_of(st.sampled_from(["a", "b", "c", "_p", "ab"]), st.integers(0, 4), st.tuples(st.integers(0, 2), st.integers(0, 2)))


class CustomMapping(collections.abc.Mapping):
    def __init__(self, d):
        self._d = dict(d)

    def __getitem__(self, k):
        return self._d[k]

    def __iter__(self):
        return iter(self._d)

    def __len__(self):
        return len(self._d)


class SizedOneShot:
    """a one-shot iterator written as a class that also knows how many elements are left (`__len__`), like a batch cursor"""

    def __init__(self, items):
        self._items = list(items)
        self._i = 0

    def __iter__(self):
        return self

    def __next__(self):
        if self._i >= len(self._items):
            raise StopIteration
        self._i += 1
        return self._items[self._i - 1]

    def __len__(self):
        return len(self._items) - self._i


class SizedOneShotCollection(SizedOneShot):
    """... and answers membership tests as well (a full collections.abc.Collection), still one-shot"""

    def __contains__(self, x):
        return x in self._items[self._i:]


class SigKwOnly:
    """no annotations: the members are what the constructor's signature names, a keyword-only parameter among them"""

    def __init__(self, host=1, port=2, *, timeout=30):
        self.host, self.port, self.timeout = host, port, timeout


class SigKwOnlySlots:
    __slots__ = ("host", "port", "timeout")

    def __init__(self, host=1, port=2, *, timeout=30, **extra):
        self.host, self.port, self.timeout = host, port, timeout


class SigVarArgs:
    """no annotations: the members are the named parameters of the constructor - those behind *args (keyword-only) too;
    the variadic ones themselves are no members"""

    def __init__(self, host=1, *rest, port=2, timeout=30, **extra):
        self.host, self.port, self.timeout = host, port, timeout
        self.rest, self.extra = rest, extra


class LayeredDict(dict):
    """a dict subclass whose view of its pairs is its own (a scope with a parent): items() is the interface"""

    def __init__(self, own, parent=()):
        super().__init__(own)
        self._parent = dict(parent)

    def _all(self):
        d = dict(self._parent)
        d.update(dict.items(self))
        return d

    def items(self):
        return self._all().items()

    def values(self):
        return self._all().values()

    def keys(self):
        return self._all().keys()

    def __iter__(self):
        return iter(self._all())

    def __len__(self):
        return len(self._all())


# structured flavours (module-level, fixed shapes with a first field that can hold anything)

@dataclasses.dataclass
class DC:
    first: typing.Any
    second: typing.Any = None
    _private: typing.Any = "p"
    cv: typing.ClassVar[int] = 7


@dataclasses.dataclass
class DCPrivRun:
    """private members side by side, in front, in the middle and at the end"""
    _p0: typing.Any
    _p1: typing.Any
    a: typing.Any
    _q0: typing.Any
    _q1: typing.Any
    _q2: typing.Any
    b: typing.Any
    _r0: typing.Any = 0
    _r1: typing.Any = 1


class PlainPrivRun:
    a: typing.Any
    _q0: typing.Any
    _q1: typing.Any
    b: typing.Any
    _r0: typing.Any
    _r1: typing.Any
    _r2: typing.Any


class SlotsPrivRun:
    __slots__ = ("_p0", "_p1", "_p2", "a", "_q0", "_q1", "b")


@dataclasses.dataclass
class DCCallable:
    """data whose instances can be called (a virtual subclass of collections.abc.Callable) and count as false"""
    first: typing.Any
    other: typing.Any = 0

    def __call__(self, *a):
        return a

    def __bool__(self):
        return False


class PlainCallable:
    first: typing.Any
    other: typing.Any

    def __init__(self, first=None, other=None):
        self.first, self.other = first, other

    def __call__(self):
        return self.first


@dataclasses.dataclass(frozen=True)
class DCFrozen:
    first: typing.Any
    other: typing.Any = 0


@dataclasses.dataclass
class DCSlots:
    __slots__ = ("a", "b")
    a: typing.Any
    b: typing.Any


class Plain:
    first: typing.Any
    second: typing.Any
    _hidden: typing.Any

    def __init__(self):
        pass

    def __eq__(self, o):
        return type(o) is type(self) and vars(o) == vars(self)


class SlotsOnly:
    __slots__ = ("x", "y", "_z")

    def __init__(self):
        pass


class VarsOnly:
    def __init__(self):
        pass


class SlotsOnlySub(SlotsOnly):
    """a subclass that only adds behaviour: it does not declare __slots__ itself (so it also has a __dict__), the slots
    of its base are still its fields - once each"""

    def total(self):
        return 0


@dataclasses.dataclass
class DCMapNames:
    """fields named like the mapping API, with class-level defaults (so the names are attributes of the class)"""
    items: typing.Any = ()
    keys: typing.Any = None
    values: typing.Any = 0


class SlotsMapNames:
    __slots__ = ("items", "get")

    def __init__(self):
        pass


class SlotsAnn:
    """annotated and slotted: the annotations name the fields"""
    __slots__ = ("x", "y")
    x: typing.Any
    y: typing.Any

    def __init__(self):
        pass


class SlotsAnnSub(SlotsAnn):
    """adds one slot to an annotated slotted base: the inherited fields are still fields"""
    __slots__ = ("z",)
    z: typing.Any


class SlotsReordered:
    """__slots__ in another order than the annotations: fields come in annotation order"""
    __slots__ = ("b", "a")
    a: typing.Any
    b: typing.Any

    def __init__(self):
        pass


class PlainBadHint:
    """one annotation names something that does not exist at run time (a TYPE_CHECKING-only import): every public
    attribute is still a field"""
    a: typing.Any
    b: "NotImportedAtRuntime"  # noqa: F821
    c: typing.Any

    def __init__(self):
        pass


class SlotsBadHint:
    __slots__ = ("a", "b", "c")
    a: typing.Any
    b: "NotImportedAtRuntime"  # noqa: F821
    c: typing.Any

    def __init__(self):
        pass


class PlainBadHintSub(Plain):
    """annotated base, the subclass adds a field whose annotation cannot be resolved"""
    extra: "NotImportedAtRuntime"  # noqa: F821


@dataclasses.dataclass
class DCSub(DC):
    """a dataclass below a dataclass: inherited fields first"""
    third: typing.Any = 3


class NT2(typing.NamedTuple):
    first: typing.Any
    second: typing.Any = 0


class NT1(typing.NamedTuple):
    only: typing.Any


NTc = collections.namedtuple("NTc", ["p", "q", "r"])


class NTsub(NT2):
    """a subclass of a typing.NamedTuple is still a named tuple"""

    def extra(self):
        return 1


class NTcsub(collections.namedtuple("NTcsubBase", ["p", "q"])):
    __slots__ = ()


_T = typing.TypeVar("_T")


class NTgen(typing.NamedTuple, typing.Generic[_T]):
    first: _T
    second: int = 0


@st.composite
def case(draw):
    cat = draw(st.sampled_from(["mapping", "structured", "namedtuple", "pairs", "nonpairs", "mixed", "text", "empty"]))
    if cat == "mapping":
        d = draw(st.dictionaries(keys, anyval, max_size=4))
        kind = draw(st.sampled_from(["dict", "OrderedDict", "MappingProxyType", "CustomMapping", "OrderedDict-reordered", "LayeredDict"]))
        return {"cat": cat, "kind": kind, "content": list(d.items())}
    if cat == "structured":
        kind = draw(st.sampled_from(["DC", "DCFrozen", "DCSlots", "Plain", "SlotsOnly", "VarsOnly", "SlotsAnn", "SlotsAnnSub", "SlotsReordered", "DCSub", "DCMapNames", "SlotsMapNames",
                                     "PlainBadHint", "SlotsBadHint", "PlainBadHintSub", "SigKwOnly", "SigKwOnlySlots", "SlotsOnlySub", "DCCallable", "PlainCallable", "DCPrivRun", "PlainPrivRun", "SlotsPrivRun", "SigVarArgs"]))
        n = {"SigVarArgs": 3, "DCPrivRun": 2, "PlainPrivRun": 2, "SlotsPrivRun": 2, "DCCallable": 2, "PlainCallable": 2, "SlotsOnlySub": 3, "PlainBadHint": 3, "SlotsBadHint": 3, "PlainBadHintSub": 3, "SigKwOnly": 3, "SigKwOnlySlots": 3, "DC": 3, "DCFrozen": 2, "DCSlots": 2, "Plain": 3, "SlotsOnly": 3, "VarsOnly": draw(st.integers(0, 3)),
             "SlotsAnn": 2, "SlotsAnnSub": 3, "SlotsReordered": 2, "DCSub": 3, "DCMapNames": 3, "SlotsMapNames": 2}[kind]
        vals = [draw(st.one_of(two_elem, anyval)) for _ in range(n)]
        return {"cat": cat, "kind": kind, "content": vals}
    if cat == "namedtuple":
        kind = draw(st.sampled_from(["NT2", "NT1", "NTc", "NTsub", "NTcsub", "NTgen"]))
        n = {"NT2": 2, "NT1": 1, "NTc": 3, "NTsub": 2, "NTcsub": 2, "NTgen": 2}[kind]
        vals = [draw(st.one_of(two_elem, anyval)) for _ in range(n)]
        return {"cat": cat, "kind": kind, "content": vals}
    kind = draw(st.sampled_from(["list", "tuple", "deque", "set", "frozenset", "generator", "iter", "map", "dictitems", "sizediter", "sizedcollectioniter"]))
    if cat == "empty":
        return {"cat": cat, "kind": kind, "content": []}
    if cat == "text":
        return {"cat": cat, "kind": draw(st.sampled_from(["str", "bytes", "bytearray"])),
                "content": draw(st.sampled_from(["", "a", "ab", "abc", "[1]", "héllo"]))}
    hashable = kind in ("set", "frozenset")
    if cat == "pairs":
        el = st.tuples(hashable_val, hashable_val) if hashable else st.one_of(st.tuples(scalars, anyval), st.lists(scalars, min_size=2, max_size=2))
        content = draw(st.lists(el, min_size=1, max_size=4))
    elif cat == "nonpairs":
        el = st.one_of(st.integers(-5, 5), st.sampled_from(["a", "abc"]), st.tuples(st.integers(0, 2),), st.just(())) if hashable else non_pair
        content = draw(st.lists(el, min_size=1, max_size=4))
    else:
        el = hashable_val if hashable else st.one_of(two_elem, non_pair)
        content = draw(st.lists(el, min_size=2, max_size=5))
    if kind == "dictitems":
        kind = "list"
    return {"cat": cat, "kind": kind, "content": content}


def _jsonable(c):
    return {"cat": c["cat"], "kind": c["kind"], "content": repr(c["content"])}


def build(c):
    """-> (x, expected_items | None, expected_values | None, reiterable, elements)"""
    cat, kind, content = c["cat"], c["kind"], c["content"]
    if isinstance(content, str) and cat != "text":
        content = eval(content)  # noqa: S307 - replay path
    if cat == "mapping":
        d = dict(content)
        if kind == "OrderedDict-reordered":
            x = collections.OrderedDict(d)
            for k_ in list(d)[: max(1, len(d) // 2)]:
                x.move_to_end(k_)            # the order of an OrderedDict is what it says it is, not its insertion history
            return x, list(x.items()), list(x.values()), True, None
        if kind == "LayeredDict":
            x = LayeredDict(d, parent={"__parent__": 0})
            return x, list(x.items()), list(x.values()), True, None
        x = {"dict": dict, "OrderedDict": collections.OrderedDict, "MappingProxyType": types.MappingProxyType,
             "CustomMapping": CustomMapping}[kind](d)
        return x, list(d.items()), list(d.values()), True, None
    if cat == "structured":
        v = list(content)
        if kind == "DC":
            x = DC(v[0], v[1], v[2])
            pairs = [("first", v[0]), ("second", v[1])]
        elif kind in ("DCPrivRun", "PlainPrivRun", "SlotsPrivRun"):
            cls = {"DCPrivRun": DCPrivRun, "PlainPrivRun": PlainPrivRun, "SlotsPrivRun": SlotsPrivRun}[kind]
            x = object.__new__(cls)
            names_ = [f.name for f in dataclasses.fields(cls)] if kind == "DCPrivRun" else list(cls.__annotations__) if kind == "PlainPrivRun" else list(cls.__slots__)
            for n_ in names_:
                object.__setattr__(x, n_, ("hidden", n_))
            x.a, x.b = v
            pairs = [("a", v[0]), ("b", v[1])]
        elif kind in ("DCCallable", "PlainCallable"):
            x = {"DCCallable": DCCallable, "PlainCallable": PlainCallable}[kind](v[0], v[1])
            pairs = [("first", v[0]), ("other", v[1])]
        elif kind == "DCFrozen":
            x = DCFrozen(v[0], v[1])
            pairs = [("first", v[0]), ("other", v[1])]
        elif kind == "DCSlots":
            x = DCSlots(v[0], v[1])
            pairs = [("a", v[0]), ("b", v[1])]
        elif kind == "Plain":
            x = Plain()
            x.first, x.second, x._hidden = v
            pairs = [("first", v[0]), ("second", v[1])]
        elif kind == "SlotsOnlySub":
            x = SlotsOnlySub()
            x.x, x.y, x._z = v
            pairs = [("x", v[0]), ("y", v[1])]
        elif kind == "SlotsOnly":
            x = SlotsOnly()
            x.x, x.y, x._z = v
            pairs = [("x", v[0]), ("y", v[1])]
        elif kind in ("SlotsAnn", "SlotsAnnSub", "SlotsReordered"):
            x = {"SlotsAnn": SlotsAnn, "SlotsAnnSub": SlotsAnnSub, "SlotsReordered": SlotsReordered}[kind]()
            names = {"SlotsAnn": ["x", "y"], "SlotsAnnSub": ["x", "y", "z"], "SlotsReordered": ["a", "b"]}[kind]
            for n_, val in zip(names, v):
                setattr(x, n_, val)
            pairs = list(zip(names, v))
        elif kind == "DCMapNames":
            x = DCMapNames(v[0], v[1], v[2])
            pairs = [("items", v[0]), ("keys", v[1]), ("values", v[2])]
        elif kind == "SlotsMapNames":
            x = SlotsMapNames()
            x.items, x.get = v
            pairs = [("items", v[0]), ("get", v[1])]
        elif kind in ("PlainBadHint", "SlotsBadHint"):
            x = {"PlainBadHint": PlainBadHint, "SlotsBadHint": SlotsBadHint}[kind]()
            x.a, x.b, x.c = v
            pairs = [("a", v[0]), ("b", v[1]), ("c", v[2])]
        elif kind == "SigVarArgs":
            x = SigVarArgs(v[0], port=v[1], timeout=v[2])
            pairs = [("host", v[0]), ("port", v[1]), ("timeout", v[2])]
        elif kind in ("SigKwOnly", "SigKwOnlySlots"):
            x = {"SigKwOnly": SigKwOnly, "SigKwOnlySlots": SigKwOnlySlots}[kind](v[0], v[1], timeout=v[2])
            pairs = [("host", v[0]), ("port", v[1]), ("timeout", v[2])]
        elif kind == "PlainBadHintSub":
            x = PlainBadHintSub()
            x.first, x.second, x.extra = v
            pairs = [("first", v[0]), ("second", v[1]), ("extra", v[2])]
        elif kind == "DCSub":
            x = DCSub(v[0], v[1], third=v[2])
            pairs = [("first", v[0]), ("second", v[1]), ("third", v[2])]
        else:
            x = VarsOnly()
            names = ["u", "_w", "v"][: len(v)]
            for n, val in zip(names, v):
                setattr(x, n, val)
            pairs = [(n, val) for n, val in zip(names, v) if not n.startswith("_")]
        return x, pairs, [p[1] for p in pairs], True, None
    if cat == "namedtuple":
        cls = {"NT2": NT2, "NT1": NT1, "NTc": NTc, "NTsub": NTsub, "NTcsub": NTcsub, "NTgen": NTgen}[kind]
        x = cls(*content)
        return x, list(zip(cls._fields, content)), list(content), True, None
    if cat == "text":
        s = content
        x = {"str": s, "bytes": s.encode(), "bytearray": bytearray(s.encode())}[kind]
        els = list(x)
        return x, list(enumerate(els)), els, True, els
    # iterables
    content = list(content)
    re_iter = kind in ("list", "tuple", "deque", "set", "frozenset")
    if kind == "list":
        x = list(content)
    elif kind == "tuple":
        x = tuple(content)
    elif kind == "deque":
        x = collections.deque(content)
    elif kind == "set":
        x = set(content)
    elif kind == "frozenset":
        x = frozenset(content)
    elif kind == "sizediter":
        x = SizedOneShot(content)
    elif kind == "sizedcollectioniter":
        x = SizedOneShotCollection(content)
    elif kind == "generator":
        x = (e for e in content)
    elif kind == "iter":
        x = iter(content)
    else:
        x = map(lambda e: e, content)
    els = list(x) if re_iter else content
    if cat == "pairs":
        return x, [tuple(e) if False else e for e in els], els, re_iter, els
    if cat in ("nonpairs", "empty"):
        return x, list(enumerate(els)), els, re_iter, els
    return x, None, els, re_iter, els  # mixed: losslessness only


def nontrivial(c, x):
    if c["cat"] == "empty" or c["kind"] in ("generator", "iter", "map", "sizediter", "sizedcollectioniter"):
        return True
    if c["cat"] == "namedtuple" or c["kind"] in ("DC", "Plain", "SlotsOnly", "VarsOnly", "SlotsAnn", "SlotsAnnSub", "SlotsReordered", "DCSub", "DCMapNames", "SlotsMapNames", "PlainBadHint", "SlotsBadHint", "PlainBadHintSub", "SigKwOnly", "SigKwOnlySlots", "SlotsOnlySub", "DCCallable", "PlainCallable", "DCPrivRun", "PlainPrivRun", "SlotsPrivRun", "SigVarArgs"):
        return True
    content = c["content"]
    if c["cat"] in ("pairs", "mixed") and content:
        return True
    return False


def _sequel(c):
    """another object of the same class with other content (for vars-only objects: another set of attributes)"""
    v = list(c["content"])
    if c["kind"] == "VarsOnly":
        v2 = v[:1] if len(v) >= 2 else [*v, "s1", ("s", 2)][:3]
    else:
        v2 = [("sequel", i) for i, _ in enumerate(v)]
    return dict(c, content=v2)


def check(c, col):
    _check(c, col, clear=True)
    if c["cat"] in ("structured", "namedtuple"):
        # the same class again, caches warm: what was learnt from the first object must not decide what the second yields
        _check(_sequel(c), col, clear=False, after=c)


def _check(c, col, clear=True, after=None):
    case_j = _jsonable(c)
    if after is not None:
        case_j["after"] = _jsonable(after)
    for fn_name in ("iteritems", "itervalues"):
        if clear:
            tl.clear_all()
        x, exp_items, exp_values, re_iter, els = build(c)
        before = snapshot(x) if re_iter else None
        col.ev()
        col.label(f"cat:{c['cat']}")
        col.label(f"kind:{c['kind']}")
        if nontrivial(c, x):
            col.nt(repr((fn_name, c["cat"], c["kind"], repr(c["content"]))))
            col.sample({"fn": fn_name, **case_j})
        fn = iteritems if fn_name == "iteritems" else itervalues
        k, out = tl.call(lambda: list(fn(x)))
        cj = dict(case_j, fn=fn_name)
        bucket = f"{c['cat']}|{c['kind'] if c['cat'] in ('structured', 'namedtuple', 'mapping', 'text') else ('oneshot' if not re_iter else 'reiterable')}"
        if k == "exc":
            col.violation(f"{fn_name}-raises", cj, f"{tl.exc_name(out)}: {out}", bucket=bucket + "|" + tl.exc_name(out))
            continue
        exp = exp_items if fn_name == "iteritems" else exp_values
        if exp is not None:
            got = [tuple(p) if fn_name == "iteritems" and isinstance(p, (tuple, list)) and c["cat"] != "pairs" else p for p in out]
            want = exp
            if c["cat"] == "pairs" and fn_name == "iteritems":
                ok = snapshot(out) == snapshot(list(exp))
            else:
                ok = snapshot(got) == snapshot(list(want))
            if not ok:
                col.violation(f"{fn_name}-exact-sequence", cj, f"yielded {out!r}, expected {exp!r}", bucket=bucket)
        elif els is not None:
            # mixed iterables: every element exactly once, in order, whichever reading was taken
            flat_ok = (snapshot(out) == snapshot(list(els))) or (snapshot(out) == snapshot(list(enumerate(els))))
            if not flat_ok:
                col.violation(f"{fn_name}-lossless", cj, f"yielded {out!r} from elements {els!r}", bucket=bucket)
        if re_iter and snapshot(x) != before:
            col.violation(f"{fn_name}-input-unchanged", cj, "input was modified", bucket=bucket)


def plan(tier, seed):
    n = 4000 if tier == "quick" else 30000
    return [{"seed": seed * 1000 + k, "n": n} for k in range(16)]


def run_shard(shard, col):
    core.drive(case(), lambda c: check(c, col), n=shard["n"], seed=shard["seed"], col=col)


def replay(clause, case_j, col):
    if case_j.get("after"):
        a = dict(case_j["after"])
        if a["cat"] != "text":
            a["content"] = eval(a["content"])  # noqa: S307
        check(a, col)
        return
    c = {"cat": case_j["cat"], "kind": case_j["kind"], "content": case_j["content"]}
    if c["cat"] != "text":
        c["content"] = eval(c["content"])  # noqa: S307
    else:
        c["content"] = eval(c["content"])  # noqa: S307  (repr of the str)
    check(c, col)


def cg_plan(seed):
    """coverage-guided shards of the thorough tier (harness/cg.py): same strategies and check functions, choices from libFuzzer"""
    return [{"seed": seed * 1000 + 900 + k, "n": 0, "cg": {"runs": 100000}} for k in range(4)]
