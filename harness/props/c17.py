"""C17 - type predicates agree with Python's own type semantics.

Catalogue (built by construction, every entry carries the facts the oracle needs): builtin and stdlib
classes the library names, every collections.abc ABC and typing alias bare and parameterised in both
spellings, synthesised user classes of every structured flavour, subclasses of stdlib classes,
pendulum temporals, NewType / TypeAliasType wrappers (1-2 layers) of all of these; special forms for
the special-form predicates; instances for the instance predicates. The catalogue part is exhaustive;
Hypothesis adds random wrapper chains and class hierarchies.

Oracle: one row per predicate, from the runtime only - issubclass(resolved, ABC or base) where resolved =
origin after NewType/alias resolution and the harness's own copy of the documented abstract->builtin
map; typing.get_origin/get_args; typing.is_typeddict, dataclasses, inspect.isabstract, hash(),
isinstance(.., (property, cached_property)), inspect.signature; by-construction facts for
issubscriptedgeneric / isstructuredtype / isstdlibtype / isbuiltintype (own copies of the documented
tables). Plus: never raises inside the domain, two calls agree, spellings agree, origin() of a
collection annotation is a concrete class of that kind.
"""

from __future__ import annotations

import collections
import collections.abc as cabc
import dataclasses
import datetime
import decimal
import enum
import fractions
import functools
import inspect
import itertools
import ipaddress
import numbers
import pathlib
import re
import sys
import types
import typing
import typing_extensions
import uuid

import pendulum

from harness import core, tl
from harness.core import st

ID = "C17"
RULE = ("every public predicate/accessor x every catalogue object of its domain (exhaustive) plus random wrapper chains / "
        "class hierarchies; non-trivial = the object is parameterised, wrapped, a subclass, or a negative for the "
        "predicate; distinct by (predicate, object name)")
ASSUMPTIONS = ["class-valued predicates are not applied to special forms, type/type[X] or Callable (outside the stated domain)",
               "structural predicates (istypeddict, isnamedtuple, isfixedtupletype, isfrozendataclass, isbuiltintype, isstdlibtype, "
               "isbuiltinsubtype, isstdlibsubtype) are applied to direct classes and NewType wrappers only",
               "issequencetype: only what both its name and its docstring imply is asserted (Sequence => True, non-Collection => False)"]
TECHNIQUE = "exhaustive catalogue enumeration (predicate x object) + Hypothesis wrapper chains; differential oracle against the Python runtime (issubclass/typing/dataclasses/inspect) with harness-owned copies of the documented tables"
LEVEL_TEXT = ("Every public predicate is evaluated on every catalogue object of its domain (about 60 predicates x 600 objects) and "
              "compared with the answer the Python runtime gives for the class the annotation resolves to; stability, spelling "
              "independence and origin() concreteness are checked as well. Exhaustive for the catalogue.")
LEVEL_NOTE = "trusts issubclass / typing.get_origin / get_args / dataclasses / inspect as the reference semantics and the harness's copies of the documented tables"
EXHAUSTIVE_NOTE = "the whole catalogue (predicate x object) is enumerated on every run"

I = tl.inspection

# ---- harness-owned copies of the documented tables --------------------------------------------------
ABSTRACT_TO_BUILTIN = {
    typing.Sequence: list, typing.MutableSequence: list, cabc.Sequence: list, cabc.MutableSequence: list,
    typing.Collection: list, cabc.Collection: list, typing.Iterable: list, cabc.Iterable: list,
    typing.AbstractSet: set, typing.MutableSet: set, cabc.Set: set, cabc.MutableSet: set,
    typing.Mapping: dict, typing.MutableMapping: dict, cabc.Mapping: dict, cabc.MutableMapping: dict,
    typing.Hashable: str, cabc.Hashable: str,
}
BUILTINS = {int, bool, float, str, bytes, bytearray, list, set, frozenset, tuple, dict, type(None)}
STDLIB = BUILTINS | {datetime.datetime, datetime.date, datetime.timedelta, datetime.time, decimal.Decimal,
                     ipaddress.IPv4Address, ipaddress.IPv6Address, pathlib.Path, uuid.UUID, collections.defaultdict,
                     collections.deque, types.MappingProxyType}

MOD = "c17_cat_mod"
SRC = '''
import abc, collections, collections.abc, dataclasses, datetime, decimal, enum, fractions, pathlib, typing, uuid, functools
@dataclasses.dataclass
class DC:
    a: int
    b: str = "x"
@dataclasses.dataclass(frozen=True)
class DCF:
    a: int
class NT(typing.NamedTuple):
    p: int
    q: str = "q"
CNT = collections.namedtuple("CNT", ["p", "q"])
class TD(typing.TypedDict):
    k: int
class TDP(typing.TypedDict, total=False):
    k: int
class Plain:
    x: int
    def __init__(self, x: int = 0):
        self.x = x
class Slots:
    __slots__ = ("x",)
    x: int
class MyStr(str): pass
class MyInt(int): pass
class MyFloat(float): pass
class MyBytes(bytes): pass
class MyDict(dict): pass
class MyList(list): pass
class MySet(set): pass
class MyTuple(tuple): pass
class MyDate(datetime.date): pass
class MyDatetime(datetime.datetime): pass
class MyTime(datetime.time): pass
class MyDelta(datetime.timedelta): pass
class MyUUID(uuid.UUID): pass
class MyDecimal(decimal.Decimal): pass
class MyFraction(fractions.Fraction): pass
class MyPath(pathlib.PurePosixPath): pass
class MyMapping(collections.abc.Mapping):
    def __getitem__(self, k): raise KeyError(k)
    def __iter__(self): return iter(())
    def __len__(self): return 0
class MySeq(collections.abc.Sequence):
    def __getitem__(self, i): raise IndexError(i)
    def __len__(self): return 0
class MyIter(collections.abc.Iterator):
    def __next__(self): raise StopIteration
class E(enum.Enum):
    A = 1
class IE(enum.IntEnum):
    A = 1
class SE(str, enum.Enum):
    A = "a"
class Abstract(collections.abc.Sized):
    pass
class WithProps:
    @property
    def p(self): return 1
    @functools.cached_property
    def c(self): return 2
    def m(self): return 3
    attr = 5
    # instances of *subclasses* of property / cached_property are properties (isinstance is what the runtime asks)
    @abc.abstractproperty
    def ap(self): return 4
    class doc_property(property):
        pass
    @doc_property
    def dp(self): return 5
    class lazy(functools.cached_property):
        pass
    @lazy
    def lz(self): return 6
def func(a: int, b: str = "x", *c: float, d: bool = True, **e: bytes) -> int: ...
class NTSub(NT):
    def extra(self): return 1
class CNTSub(CNT):
    __slots__ = ()
@dataclasses.dataclass
class DCSub(DC):
    c: float = 0.5
class TDSub(TD):
    extra: str
class TDEmpty(typing.TypedDict):
    pass
# the same declarations through the typing_extensions back-port (below Python 3.13 an implementation of its own, with its own metaclass)
import typing_extensions
class TDX(typing_extensions.TypedDict):
    k: int
class TDXP(typing_extensions.TypedDict, total=False):
    k: int
    opt: typing_extensions.Required[str]
class TDXSub(TDX):
    extra: typing_extensions.NotRequired[str]
TDXF = typing_extensions.TypedDict("TDXF", {"k": int, "with-dash": str})
@dataclasses.dataclass
class CallDC:
    """instances can be called: a virtual subclass of collections.abc.Callable, and a dataclass all the same"""
    a: int = 0
    def __call__(self, *args): return args
class CallNT(typing.NamedTuple):
    p: int = 0
    def __call__(self): return self.p
class TDPEmpty(typing.TypedDict, total=False):
    pass
@dataclasses.dataclass
class DCX:
    a: int
    cv: typing.ClassVar[int] = 3
    made: list = dataclasses.field(default_factory=list, init=False)
class DCXSub(DCX):            # a subclass that adds no annotation of its own
    def total(self): return self.a
class PlainNoInit:
    x: int
    y: str = "y"
class PlainNoInitSub(PlainNoInit):
    pass
class PlainSub2(Plain):
    def hello(self): return "hi"
class SlotsSub(Slots):
    __slots__ = ()
class LazyProxy:
    """answers every attribute lookup (a lazy client / attribute dict): special methods are looked up on the type, not here"""
    def __getattr__(self, name):
        return lambda *a, **k: name
class Fussy:
    """an object whose attribute fallback fails in its own way"""
    def __getattr__(self, name):
        raise RuntimeError("no such thing: " + name)
class Outer:
    class Mid:
        @dataclasses.dataclass
        class Inner:
            a: int
        class InnerStr(str): pass
    class Side(dict): pass
def _local():
    @dataclasses.dataclass
    class Local:
        a: int
    class LocalOuter:
        class LocalInner(list): pass
    return Local, LocalOuter.LocalInner
Local, LocalInner = _local()
'''

_CAT = None


def catalogue():
    """-> list of dicts {name, obj, resolved(class|None), subscripted, wrapped, kind}"""
    global _CAT
    if _CAT is not None:
        return _CAT
    m = types.ModuleType(MOD)
    sys.modules[MOD] = m
    exec(SRC, m.__dict__)  # noqa: S102
    N = m.__dict__
    cat = []

    def add(name, obj, resolved, subscripted=False, wrapped=0, kind="class", flavour=None, abstract_of=None):
        cat.append({"name": name, "obj": obj, "resolved": resolved, "subscripted": subscripted, "wrapped": wrapped,
                    "kind": kind, "flavour": flavour, "abstract_of": abstract_of})

    plain_classes = [int, bool, float, str, bytes, bytearray, memoryview, list, set, frozenset, tuple, dict, type(None),
                     decimal.Decimal, fractions.Fraction, uuid.UUID, pathlib.Path, pathlib.PurePath, pathlib.PurePosixPath,
                     pathlib.PureWindowsPath, pathlib.PosixPath, datetime.date, datetime.datetime, datetime.time, datetime.timedelta,
                     re.Pattern, ipaddress.IPv4Address, ipaddress.IPv6Address, collections.defaultdict, collections.deque,
                     collections.OrderedDict, collections.Counter, collections.ChainMap, types.MappingProxyType, range, complex,
                     pendulum.DateTime, pendulum.Date, pendulum.Time, pendulum.Duration]
    for c in plain_classes:
        add(f"{c.__module__}.{c.__qualname__}", c, c, flavour="stdlib")
    user = {"DC": "dataclass", "DCF": "dataclass", "NT": "namedtuple", "CNT": "namedtuple", "TD": "typeddict", "TDP": "typeddict",
            "Plain": "plain", "Slots": "plain",
            # subclasses of each structured flavour, and TypedDicts without any key
            "NTSub": "namedtuple", "CNTSub": "namedtuple", "DCSub": "dataclass", "TDSub": "typeddict", "TDEmpty": "typeddict", "TDPEmpty": "typeddict",
            "TDX": "typeddict", "TDXP": "typeddict", "TDXSub": "typeddict", "TDXF": "typeddict",
            "CallDC": "dataclass", "CallNT": "namedtuple"}
    for n, fl in user.items():
        add(f"user.{n}", N[n], N[n], flavour=fl)
    for n in ["MyStr", "MyInt", "MyFloat", "MyBytes", "MyDict", "MyList", "MySet", "MyTuple", "MyDate", "MyDatetime", "MyTime",
              "MyDelta", "MyUUID", "MyDecimal", "MyFraction", "MyPath", "MyMapping", "MySeq", "MyIter", "E", "IE", "SE"]:
        add(f"user.{n}", N[n], N[n], flavour="subclass")
    # nested and function-local classes (qualified names with several components)
    add("user.Outer.Mid.Inner", N["Outer"].Mid.Inner, N["Outer"].Mid.Inner, flavour="dataclass")
    add("user.Outer.Mid.InnerStr", N["Outer"].Mid.InnerStr, N["Outer"].Mid.InnerStr, flavour="subclass")
    add("user.Outer.Side", N["Outer"].Side, N["Outer"].Side, flavour="subclass")
    add("user.<locals>.Local", N["Local"], N["Local"], flavour="dataclass")
    add("user.<locals>.LocalOuter.LocalInner", N["LocalInner"], N["LocalInner"], flavour="subclass")
    # ABCs and typing aliases, bare and parameterised
    abc1 = ["Iterable", "Iterator", "Collection", "Sequence", "MutableSequence", "Set", "MutableSet", "Reversible", "KeysView", "ValuesView", "Container"]
    abc2 = ["Mapping", "MutableMapping", "ItemsView"]
    for n in abc1 + abc2 + ["Hashable", "Sized"]:
        a = getattr(cabc, n)
        add(f"collections.abc.{n}", a, ABSTRACT_TO_BUILTIN.get(a, a), kind="abc", abstract_of=a)
    for n in abc1:
        a = getattr(cabc, n)
        add(f"collections.abc.{n}[int]", a[int], ABSTRACT_TO_BUILTIN.get(a, a), True, kind="abc", abstract_of=a)
    for n in abc2:
        a = getattr(cabc, n)
        add(f"collections.abc.{n}[str, int]", a[str, int], ABSTRACT_TO_BUILTIN.get(a, a), True, kind="abc", abstract_of=a)
    t1 = {"List": list, "Set": set, "FrozenSet": frozenset, "Deque": collections.deque, "Sequence": cabc.Sequence,
          "MutableSequence": cabc.MutableSequence, "Collection": cabc.Collection, "Iterable": cabc.Iterable, "Iterator": cabc.Iterator,
          "AbstractSet": cabc.Set, "MutableSet": cabc.MutableSet}
    t2 = {"Dict": dict, "Mapping": cabc.Mapping, "MutableMapping": cabc.MutableMapping, "DefaultDict": collections.defaultdict,
          "OrderedDict": collections.OrderedDict, "ChainMap": collections.ChainMap}
    for n, o in t1.items():
        a = getattr(typing, n)
        res = ABSTRACT_TO_BUILTIN.get(a, ABSTRACT_TO_BUILTIN.get(o, o))
        add(f"typing.{n}", a, res, kind="typing", abstract_of=o)
        add(f"typing.{n}[int]", a[int], res, True, kind="typing", abstract_of=o)
    for n, o in t2.items():
        a = getattr(typing, n)
        res = ABSTRACT_TO_BUILTIN.get(a, ABSTRACT_TO_BUILTIN.get(o, o))
        add(f"typing.{n}", a, res, kind="typing", abstract_of=o)
        add(f"typing.{n}[str, int]", a[str, int], res, True, kind="typing", abstract_of=o)
    add("typing.Counter[str]", typing.Counter[str], collections.Counter, True, kind="typing", abstract_of=collections.Counter)
    for n, o in [("list[int]", list[int]), ("set[int]", set[int]), ("frozenset[int]", frozenset[int]), ("dict[str, int]", dict[str, int]),
                 ("tuple[int, ...]", tuple[int, ...]), ("tuple[int, str]", tuple[int, str]), ("collections.deque[int]", collections.deque[int]),
                 ("typing.Tuple[int, ...]", typing.Tuple[int, ...]), ("typing.Tuple[int, str]", typing.Tuple[int, str]),
                 ("collections.defaultdict[str, int]", collections.defaultdict[str, int]), ("typing.Tuple", typing.Tuple),
                 ("list[list[int]]", list[list[int]]), ("dict[str, list[int]]", dict[str, list[int]]),
                 # the tuple with no members: subscripted (its origin is tuple) with an empty argument list
                 ("tuple[()]", tuple[()]), ("typing.Tuple[()]", typing.Tuple[()])]:
        add(n, o, typing.get_origin(o) or tuple, typing.get_origin(o) is not None and (bool(typing.get_args(o)) or n.endswith("[()]")), kind="generic",
            flavour="fixedtuple" if n.endswith("[int, str]") else None)
    # wrappers: NewType and TypeAliasType, one and two layers
    base = list(cat)
    for e in base:
        if e["kind"] in ("class",) or e["subscripted"] or e["kind"] in ("abc", "typing"):
            nt = typing.NewType("NT_" + re.sub(r"\W", "_", e["name"]), e["obj"])
            add(f"NewType({e['name']})", nt, e["resolved"], e["subscripted"], 1, "newtype", e["flavour"], e["abstract_of"])
            al = typing.TypeAliasType("AL_" + re.sub(r"\W", "_", e["name"]), e["obj"])
            add(f"alias({e['name']})", al, e["resolved"], e["subscripted"], 1, "alias", e["flavour"], e["abstract_of"])
    for e in [x for x in cat if x["kind"] == "newtype"][::5]:
        nt2 = typing.NewType("NT2_" + e["obj"].__name__, e["obj"])
        add(f"NewType({e['name']})", nt2, e["resolved"], e["subscripted"], 2, "newtype", e["flavour"], e["abstract_of"])
    # ... and NewType upon NewType three, four and five layers deep
    for e in [x for x in cat if x["kind"] == "newtype" and x["wrapped"] == 2][::2]:
        o, nm = e["obj"], e["name"]
        for depth in (3, 4, 5):
            o, nm = typing.NewType(f"NT{depth}_" + e["obj"].__name__, o), f"NewType({nm})"
            if depth != 4:
                add(nm, o, e["resolved"], e["subscripted"], depth, "newtype", e["flavour"], e["abstract_of"])
    _CAT = cat
    return cat


def special_forms():
    T = typing.TypeVar("T")
    return {
        "Optional[int]": (typing.Optional[int], {"optional", "union"}), "Union[int, None]": (typing.Union[int, None], {"optional", "union"}),
        "int | None": (int | None, {"optional", "union"}), "None | int": (None | int, {"optional", "union"}),
        "Union[None, int, str]": (typing.Union[None, int, str], {"optional", "union"}),
        "Union[int, str]": (typing.Union[int, str], {"union"}), "int | str": (int | str, {"union"}),
        "Optional[list[int]]": (typing.Optional[list[int]], {"optional", "union"}),
        "Literal[1]": (typing.Literal[1], {"literal"}), "Literal[1, None]": (typing.Literal[1, None], {"literal", "optional"}),
        "Final[int]": (typing.Final[int], {"final"}), "ClassVar[int]": (typing.ClassVar[int], {"classvar"}),
        # the unsubscripted spellings (`x: ClassVar = 1` is a class variable for dataclasses, `y: Final = 2` a final name)
        "ClassVar": (typing.ClassVar, {"classvar"}), "Final": (typing.Final, {"final"}),
        "typing_extensions.ClassVar[int]": (typing_extensions.ClassVar[int], {"classvar"}),
        "Final[Optional[int]]": (typing.Final[typing.Optional[int]], {"final"}),
        "TypeVar": (T, set()), "Callable": (typing.Callable, {"unresolvable"}), "abc.Callable": (cabc.Callable, {"unresolvable"}),
        "Any": (typing.Any, {"unresolvable"}), "object": (object, {"unresolvable"}), "None": (None, {"none"}), "NoneType": (type(None), {"none"}),
        "ForwardRef('int')": (typing.ForwardRef("int"), {"forwardref"}), "Ellipsis": (..., {"unresolvable"}),
        "int": (int, set()), "list[int]": (list[int], set()), "dict": (dict, set()),
    }


CLASS_PREDICATES = {
    "isdatetype": datetime.date, "isdatetimetype": datetime.datetime, "istimetype": datetime.time, "istimedeltatype": datetime.timedelta,
    "isdecimaltype": decimal.Decimal, "isfractiontype": fractions.Fraction, "isuuidtype": uuid.UUID, "isiterabletype": cabc.Iterable,
    "isiteratortype": cabc.Iterator, "istupletype": tuple, "iscollectiontype": cabc.Collection, "ismappingtype": cabc.Mapping,
    "isenumtype": enum.Enum, "isstringtype": str, "isbytestype": (bytes, bytearray, memoryview),
    "istexttype": (str, bytes, bytearray, memoryview), "isnumbertype": numbers.Number, "isintegertype": int, "isfloattype": float,
    "ispatterntype": re.Pattern, "ispathtype": pathlib.PurePath,
}
SPELLING_PAIRS = [
    ("typing.List[int]", typing.List[int], "list[int]", list[int]), ("typing.Dict[str, int]", typing.Dict[str, int], "dict[str, int]", dict[str, int]),
    ("typing.Set[int]", typing.Set[int], "set[int]", set[int]), ("typing.FrozenSet[int]", typing.FrozenSet[int], "frozenset[int]", frozenset[int]),
    ("typing.Tuple[int, ...]", typing.Tuple[int, ...], "tuple[int, ...]", tuple[int, ...]),
    ("typing.Tuple[int, str]", typing.Tuple[int, str], "tuple[int, str]", tuple[int, str]),
    ("typing.Deque[int]", typing.Deque[int], "collections.deque[int]", collections.deque[int]),
    ("typing.Sequence[int]", typing.Sequence[int], "collections.abc.Sequence[int]", cabc.Sequence[int]),
    ("typing.Mapping[str, int]", typing.Mapping[str, int], "collections.abc.Mapping[str, int]", cabc.Mapping[str, int]),
    ("typing.Iterable[int]", typing.Iterable[int], "collections.abc.Iterable[int]", cabc.Iterable[int]),
    ("typing.Optional[int]", typing.Optional[int], "int | None", int | None),
    ("typing.Union[int, str]", typing.Union[int, str], "int | str", int | str),
    ("typing.Optional[list[int]]", typing.Optional[list[int]], "list[int] | None", list[int] | None),
]
SPELLING_PREDICATES = list(CLASS_PREDICATES) + ["issequencetype", "isoptionaltype", "isuniontype", "isliteral", "isfinal", "isclassvartype",
                                                "issubscriptedgeneric", "isstructuredtype", "isfixedtupletype", "isnonetype", "isunresolvable",
                                                "isgeneric", "isstdlibtype", "isbuiltintype", "origin", "args"]


def call(pname, obj):
    f = getattr(I, pname)
    r1 = tl.call(f, obj)
    r2 = tl.call(f, obj)
    return r1, r2


def check_catalogue(col, lo=0, step=1):
    cat = catalogue()
    for idx, e in enumerate(cat):
        if idx % step != lo:
            continue
        obj, res, name = e["obj"], e["resolved"], e["name"]
        nontriv_obj = e["subscripted"] or e["wrapped"] or e["flavour"] in ("subclass",) or e["kind"] != "class"

        def judge(pname, want, got_pair, note=""):
            col.ev()
            r1, r2 = got_pair
            case = {"predicate": pname, "object": name}
            col.label("predicate:" + pname)
            if nontriv_obj or want is False:
                col.nt(f"{pname}|{name}")
            if r1[0] == "exc":
                col.violation("never-raises", case, f"{pname}({name}) raised {tl.exc_name(r1[1])}: {r1[1]}", bucket=f"{pname}|{e['kind']}")
                return
            if r2[0] == "exc" or r1[1] != r2[1]:
                col.violation("stable", case, f"{pname}({name}): {r1[1]!r} then {r2[1]!r}", bucket=pname)
            if want is not None and bool(r1[1]) != want:
                col.violation("agrees-with-runtime", case, f"{pname}({name}) = {r1[1]!r}, runtime says {want!r} {note}",
                              bucket=f"{pname}|{e['kind']}|{'wrapped' if e['wrapped'] else 'direct'}")

        if inspect.isclass(res):
            for pname, base in CLASS_PREDICATES.items():
                judge(pname, issubclass(res, base), call(pname, obj), f"(resolved class {res.__name__})")
            # issequencetype: only what both readings imply
            want = True if issubclass(res, cabc.Sequence) else (False if not issubclass(res, cabc.Collection) else None)
            judge("issequencetype", want, call("issequencetype", obj))
            # origin(): class-valued; for collection annotations a concrete class of that kind
            r1, r2 = call("origin", obj)
            col.ev()
            case = {"predicate": "origin", "object": name}
            if r1[0] == "exc":
                col.violation("never-raises", case, f"origin({name}) raised {tl.exc_name(r1[1])}", bucket="origin")
            else:
                o = r1[1]
                if r2[0] == "exc" or o is not r2[1]:
                    col.violation("stable", case, f"origin({name}) unstable", bucket="origin")
                ann_origin = e["abstract_of"] or (typing.get_origin(e["obj"]) if e["kind"] == "generic" else None) or (res if e["kind"] == "class" else None)
                if (ann_origin is not None and inspect.isclass(ann_origin) and not typing_extensions.is_typeddict(ann_origin)
                        and issubclass(ann_origin, cabc.Collection) and ann_origin not in (str, bytes, bytearray, memoryview, range)):
                    col.nt(f"origin|{name}")
                    if not inspect.isclass(o):
                        col.violation("origin-concrete-collection", case, f"origin({name}) = {o!r} is not a class", bucket="not-class")
                    elif inspect.isabstract(o):
                        col.violation("origin-concrete-collection", case, f"origin({name}) = {o!r} is abstract", bucket="abstract")
                    elif not issubclass(o, ann_origin):
                        col.violation("origin-concrete-collection", case, f"origin({name}) = {o!r} is not a {ann_origin!r}", bucket="not-subclass")
                    elif ann_origin in ABSTRACT_TO_BUILTIN and (o is not ABSTRACT_TO_BUILTIN[ann_origin] or o() != ABSTRACT_TO_BUILTIN[ann_origin]()):
                        col.violation("origin-concrete-collection", case, f"origin({name}) = {o!r}, documented map says {ABSTRACT_TO_BUILTIN[ann_origin]!r}", bucket="map")
                elif e["kind"] == "class" and o is not res:
                    col.violation("agrees-with-runtime", case, f"origin({name}) = {o!r}, expected the class itself", bucket="origin|class")
        # by-construction special-form answers
        judge("issubscriptedgeneric", bool(e["subscripted"]) if e["kind"] in ("generic", "abc", "typing", "class") else None, call("issubscriptedgeneric", obj))
        for pname in ("isuniontype", "isoptionaltype", "isliteral", "isfinal", "isclassvartype", "isnonetype", "isforwardref"):
            want = False
            if pname == "isnonetype" and res is type(None) and not e["wrapped"]:
                want = True
            if pname == "isnonetype" and e["wrapped"]:
                want = None
            judge(pname, want, call(pname, obj))
        # structural predicates on direct classes only
        if e["kind"] == "class":
            judge("istypeddict", typing_extensions.is_typeddict(obj), call("istypeddict", obj))
            judge("isnamedtuple", isinstance(obj, type) and issubclass(obj, tuple) and hasattr(obj, "_fields"), call("isnamedtuple", obj))
            judge("isfrozendataclass", bool(dataclasses.is_dataclass(obj) and obj.__dataclass_params__.frozen), call("isfrozendataclass", obj))
            judge("isabstract", inspect.isabstract(obj) or obj is numbers.Number, call("isabstract", obj))
            judge("isbuiltintype", obj in BUILTINS, call("isbuiltintype", obj))
            judge("isstdlibtype", obj in STDLIB, call("isstdlibtype", obj))
            judge("isbuiltinsubtype", issubclass(obj, tuple(BUILTINS)), call("isbuiltinsubtype", obj))
            judge("isstdlibsubtype", issubclass(obj, tuple(STDLIB)), call("isstdlibsubtype", obj))
            if e["flavour"] in ("dataclass", "namedtuple", "typeddict", "plain"):
                judge("isstructuredtype", True, call("isstructuredtype", obj))
            elif e["flavour"] == "stdlib" and obj in STDLIB:
                judge("isstructuredtype", False, call("isstructuredtype", obj))
            # name / qualname of classes
            for pname, want_s in (("name", obj.__name__), ("qualname", obj.__qualname__.replace("<locals>.", ""))):
                col.ev()
                r1, _ = call(pname, obj)
                if r1[0] == "exc" or r1[1] != want_s:
                    col.violation("agrees-with-runtime", {"predicate": pname, "object": name}, f"{pname}({name}) = {r1[1]!r}, class says {want_s!r}", bucket=pname)
        elif getattr(obj, "__name__", None) is not None:
            # ABCs, typing aliases, generic aliases, NewTypes and value aliases: the runtime's own __name__
            col.ev()
            col.nt(f"name|{name}")
            r1, r2 = call("name", obj)
            if r1[0] == "exc" or r1[1] != obj.__name__ or r2 != r1:
                col.violation("agrees-with-runtime", {"predicate": "name", "object": name},
                              f"name({name}) = {r1[1]!r}, runtime __name__ is {obj.__name__!r}", bucket="name|" + e["kind"])
            rq = getattr(obj, "__qualname__", None)
            r1, _ = call("qualname", obj)
            # a NewType / value alias is a named object of its own: the runtime's qualified name exactly, whatever it wraps
            exact = e["kind"] in ("newtype", "alias") and rq is not None and r1[0] == "ok" and r1[1] != rq
            if r1[0] == "exc" or exact or (rq is not None and r1[1].rsplit(".", 1)[-1] != rq.rsplit(".", 1)[-1]):
                col.violation("agrees-with-runtime", {"predicate": "qualname", "object": name},
                              f"qualname({name}) = {r1[1]!r}, runtime __qualname__ is {rq!r}", bucket="qualname|" + e["kind"])
        if e["kind"] == "newtype" and inspect.isclass(res) and not e["subscripted"] and e["abstract_of"] is None:
            # (however many NewTypes are stacked)
            r1, _ = call("resolve_supertype", obj)
            col.ev()
            if r1[0] == "exc" or r1[1] is not res:
                col.violation("agrees-with-runtime", {"predicate": "resolve_supertype", "object": name},
                              f"resolve_supertype({name}) = {r1[1]!r}, the chain of __supertype__ ends at {res!r}", bucket="resolve_supertype|newtype")
            judge("isbuiltintype", res in BUILTINS, call("isbuiltintype", obj))
            judge("isstdlibtype", res in STDLIB, call("isstdlibtype", obj))
            judge("isbuiltinsubtype", issubclass(res, tuple(BUILTINS)), call("isbuiltinsubtype", obj))
            judge("isstdlibsubtype", issubclass(res, tuple(STDLIB)), call("isstdlibsubtype", obj))
        if e["kind"] in ("abc", "typing") and e["abstract_of"] is not None and e["resolved"] in (list, set, frozenset, dict, tuple):
            # an ABC / typing alias that stands for a builtin collection (bare or parameterised, either spelling) is no structured type
            judge("isstructuredtype", False, call("isstructuredtype", obj))
        if e["kind"] == "generic":
            judge("isfixedtupletype", e["flavour"] == "fixedtuple", call("isfixedtupletype", obj))
            judge("isstructuredtype", e["flavour"] == "fixedtuple", call("isstructuredtype", obj))
            # args(): typing.get_args
            col.ev()
            r1, _ = call("args", obj)
            if r1[0] == "exc" or tuple(r1[1]) != tuple(typing.get_args(obj)):
                col.violation("agrees-with-runtime", {"predicate": "args", "object": name}, f"args({name}) = {r1[1]!r}, typing.get_args = {typing.get_args(obj)!r}", bucket="args")
    col.exhaustive_done = True


def _callable_class(c):
    return hasattr(c, "__call__") and "__call__" in {k for b in c.__mro__[:-1] for k in vars(b)}


def check_special(col):
    for name, (obj, facts) in special_forms().items():
        for pname, fact in (("isoptionaltype", "optional"), ("isuniontype", "union"), ("isliteral", "literal"), ("isfinal", "final"),
                            ("isclassvartype", "classvar"), ("isunresolvable", "unresolvable"), ("isnonetype", "none"), ("isforwardref", "forwardref")):
            col.ev()
            col.label("predicate:" + pname)
            col.nt(f"{pname}|special|{name}")
            r1, r2 = call(pname, obj)
            case = {"predicate": pname, "object": "special:" + name}
            want = fact in facts
            if pname in ("isfinal", "isclassvartype", "isoptionaltype", "isuniontype") and name.startswith(("Final[Optional", )):
                want = None if pname in ("isoptionaltype", "isuniontype") else want
            if r1[0] == "exc":
                col.violation("never-raises", case, f"{pname}({name}) raised {tl.exc_name(r1[1])}: {r1[1]}", bucket=pname)
            elif r2[0] == "exc" or r1[1] != r2[1]:
                col.violation("stable", case, f"{pname}({name}) unstable", bucket=pname)
            elif want is not None and bool(r1[1]) != want:
                col.violation("agrees-with-runtime", case, f"{pname}({name}) = {r1[1]!r}, expected {want!r}", bucket=f"{pname}|special")
        # origin / args / unwrap against typing
        col.ev()
        r1, _ = call("args", obj)
        want_args = typing.get_args(obj)
        if isinstance(obj, typing.TypeVar):
            want_args = ()
        if r1[0] == "ok" and tuple(r1[1]) != tuple(want_args) and name not in ("TypeVar",):
            col.violation("agrees-with-runtime", {"predicate": "args", "object": "special:" + name}, f"args({name}) = {r1[1]!r}, typing.get_args = {want_args!r}", bucket="args|special")
    # unwrap
    nt = typing.NewType("NTu", int)
    nt2 = typing.NewType("NTu2", nt)
    al = typing.TypeAliasType("ALu", list[int])
    for name, obj, want in [("NewType(int)", nt, int), ("NewType(NewType(int))", nt2, int), ("alias(list[int])", al, list[int]),
                            ("Final[int]", typing.Final[int], int), ("ClassVar[NewType(int)]", typing.ClassVar[nt], int),
                            ("Final[alias]", typing.Final[al], list[int]), ("int", int, int), ("list[int]", list[int], list[int])]:
        col.ev()
        col.nt("unwrap|" + name)
        r1, r2 = call("unwrap", obj)
        if r1[0] == "exc" or r1[1] != want or r2[0] == "exc" or r2[1] != want:
            col.violation("agrees-with-runtime", {"predicate": "unwrap", "object": "special:" + name}, f"unwrap({name}) = {r1[1]!r}, expected {want!r}", bucket="unwrap")
    # spelling independence
    for n1, o1, n2, o2 in SPELLING_PAIRS:
        special = I.isuniontype(o1) if tl.call(I.isuniontype, o1)[0] == "ok" else False
        for pname in SPELLING_PREDICATES:
            if special and (pname in CLASS_PREDICATES or pname == "issequencetype"):
                continue  # class-valued predicates applied to special forms are outside the domain
            col.ev()
            col.nt(f"spelling|{pname}|{n1}")
            a, _ = call(pname, o1)
            b, _ = call(pname, o2)
            case = {"predicate": pname, "object": f"spelling:{n1} vs {n2}"}
            va = ("exc", tl.exc_name(a[1])) if a[0] == "exc" else ("ok", a[1])
            vb = ("exc", tl.exc_name(b[1])) if b[0] == "exc" else ("ok", b[1])
            if va[0] == "exc" or vb[0] == "exc":
                col.violation("never-raises", case, f"{pname}: {n1} -> {va}, {n2} -> {vb}", bucket=f"{pname}|spelling")
            elif va != vb:
                col.violation("spelling-independent", case, f"{pname}({n1}) = {va[1]!r} but {pname}({n2}) = {vb[1]!r}", bucket=pname)
    # instance predicates
    N = sys.modules[MOD].__dict__
    W = N["WithProps"]
    for name, obj, pred, want in [
        ("property", W.__dict__["p"], "isproperty", True), ("cached_property", W.__dict__["c"], "isproperty", True),
        ("function", W.__dict__["m"], "isproperty", False), ("int attr", 5, "isproperty", False),
        ("abstractproperty", W.__dict__["ap"], "isproperty", True), ("property subclass", W.__dict__["dp"], "isproperty", True),
        ("cached_property subclass", W.__dict__["lz"], "isproperty", True),
        ("property subclass", W.__dict__["dp"], "isdescriptor", True), ("property subclass", W.__dict__["dp"], "issimpleattribute", False),
        ("property", W.__dict__["p"], "isdescriptor", True), ("function", W.__dict__["m"], "isdescriptor", True), ("int", 5, "isdescriptor", False),
        ("int attr", 5, "issimpleattribute", True), ("function", W.__dict__["m"], "issimpleattribute", False), ("class", int, "issimpleattribute", False),
        ("property", W.__dict__["p"], "issimpleattribute", False),
        # instances whose __getattr__ answers (or fails) for any name: the descriptor protocol is a property of the type
        ("LazyProxy()", N["LazyProxy"](), "isdescriptor", False), ("Fussy()", N["Fussy"](), "isdescriptor", False),
        ("LazyProxy()", N["LazyProxy"](), "issimpleattribute", True), ("Fussy()", N["Fussy"](), "issimpleattribute", True),
        ("LazyProxy()", N["LazyProxy"](), "isproperty", False),
    ]:
        col.ev()
        col.nt(f"{pred}|inst|{name}")
        r1, _ = call(pred, obj)
        if r1[0] == "exc" or bool(r1[1]) != want:
            col.violation("agrees-with-runtime", {"predicate": pred, "object": "instance:" + name}, f"{pred}({name}) = {r1[1]!r}, expected {want}", bucket=pred)
    instances = ["", 1, 1.5, b"", None, (), frozenset(), [], {}, set(), bytearray(), (1, [2]), N["DC"](1), N["DCF"](1), N["NT"](1), datetime.date(2020, 1, 1),
                 decimal.Decimal(1), uuid.UUID(int=1), pathlib.PurePosixPath("a"), collections.deque(), types.MappingProxyType({})]
    for o in instances:
        col.ev()
        col.nt(f"ishashable|{o!r}")
        # documented as a fast equivalent of isinstance(obj, typing.Hashable)
        want = isinstance(o, cabc.Hashable)
        r1, _ = call("ishashable", o)
        if r1[0] == "exc" or (want is not None and bool(r1[1]) != want):
            col.violation("agrees-with-runtime", {"predicate": "ishashable", "object": f"instance:{o!r}"}, f"ishashable({o!r}) = {r1[1]!r}, hash() says {want}", bucket="ishashable")
        for pred, table in (("isbuiltininstance", BUILTINS), ("isstdlibinstance", STDLIB)):
            col.ev()
            r1, _ = call(pred, o)
            want2 = isinstance(o, tuple(table))
            if r1[0] == "exc" or bool(r1[1]) != want2:
                col.violation("agrees-with-runtime", {"predicate": pred, "object": f"instance:{o!r}"}, f"{pred}({o!r}) = {r1[1]!r}, expected {want2}", bucket=pred)
    # signature helpers
    for name, obj in [("func", N["func"]), ("DC", N["DC"]), ("Plain", N["Plain"]), ("NT", N["NT"]), ("NTSub", N["NTSub"]),
                      ("CNTSub", N["CNTSub"]), ("DCSub", N["DCSub"])]:
        col.ev()
        col.nt("signature|" + name)
        r1, _ = call("signature", obj)
        if r1[0] == "exc" or r1[1] != inspect.signature(obj):
            col.violation("agrees-with-runtime", {"predicate": "signature", "object": "callable:" + name}, f"signature({name}) = {r1[1]!r}, inspect says {inspect.signature(obj)!r}", bucket="signature")
    # TypedDict / tuple signature fakes: parameter names and annotations
    r1, _ = call("signature", N["TD"])
    col.ev()
    if r1[0] == "exc" or list(r1[1].parameters) != ["k"] or r1[1].parameters["k"].annotation is not int:
        col.violation("agrees-with-runtime", {"predicate": "signature", "object": "callable:TD"}, f"signature(TD) = {r1[1]!r}", bucket="signature")
    # qualifiers are transparent for unwrap (origin / args report the qualifier itself, by design)
    TB = typing.TypeVar("TB", bound=int)
    TCn = typing.TypeVar("TCn", int, str)
    TF = typing.TypeVar("TF")
    inner = {"TypeVar(bound=int)": TB, "TypeVar(int, str)": TCn, "TypeVar()": TF, "int": int, "list[int]": list[int],
             "Optional[int]": typing.Optional[int], "NewType(int)": typing.NewType("QN", int), "alias(list[int])": typing.TypeAliasType("QA", list[int]),
             "DC": N["DC"], "NewType(alias)": typing.NewType("QNA", typing.TypeAliasType("QA2", N["DC"]))}
    for iname, x in inner.items():
        for qname, q in (("Final", typing.Final), ("ClassVar", typing.ClassVar)):
            for acc in ("unwrap",):
                col.ev()
                col.nt(f"{acc}|{qname}[{iname}]")
                k1, r1 = tl.call(getattr(I, acc), q[x])
                k2, r2 = tl.call(getattr(I, acc), x)
                case = {"predicate": acc, "object": f"special:{qname}[{iname}]"}
                if k1 == "exc":
                    col.violation("never-raises", case, f"{acc}({qname}[{iname}]) raised {tl.exc_name(r1)}", bucket=f"{acc}|qualifier")
                elif k2 == "ok" and r1 != r2:
                    col.violation("agrees-with-runtime", case, f"{acc}({qname}[{iname}]) = {r1!r}, but {acc}({iname}) = {r2!r}", bucket=f"{acc}|qualifier")
    # TypedDicts of every shape (subclass, no keys at all): keyword parameters = the declared keys, never raises
    for name in ("TD", "TDP", "TDSub", "TDEmpty", "TDPEmpty"):
        td = N[name]
        want = list(typing.get_type_hints(td))
        for helper in ("signature", "safe_get_params", "get_type_hints", "cached_type_hints"):
            col.ev()
            col.nt(f"{helper}|{name}")
            k, r = tl.call(getattr(I, helper), td)
            case = {"predicate": helper, "object": "callable:" + name}
            if k == "exc":
                col.violation("never-raises", case, f"{helper}({name}) raised {tl.exc_name(r)}", bucket=f"{helper}|typeddict")
                continue
            got = list(r.parameters) if helper == "signature" else list(r)
            if got != want:
                col.violation("agrees-with-runtime", case, f"{helper}({name}) names {got!r}, the TypedDict declares {want!r}", bucket=f"{helper}|typeddict")
    # the type-hint helpers on every structured flavour and on subclasses (also ones that declare nothing themselves, also
    # under stringified annotations): what typing.get_type_hints says, names in the same order
    FUT = _future_module().__dict__
    hinted = [(n, N[n]) for n in ("DC", "DCF", "NT", "NTSub", "Plain", "PlainSub2", "Slots", "SlotsSub", "DCSub", "DCX", "DCXSub", "PlainNoInit",
                                  "PlainNoInitSub", "TD", "TDSub", "func")] + [("future:" + n, FUT[n]) for n in ("FDC", "FDCSub", "FPlain", "FPlainSub")]
    for name, obj in hinted:
        want = {k: v for k, v in typing.get_type_hints(obj).items()}
        if not want:
            continue
        for helper, kw in (("get_type_hints", {}), ("get_type_hints", {"exhaustive": False}), ("cached_type_hints", {})):
            col.ev()
            col.nt(f"{helper}|{kw}|{name}")
            k, r = tl.call(getattr(I, helper), obj, **kw)
            case = {"predicate": helper, "object": "callable:" + name}
            if k == "exc":
                col.violation("never-raises", case, f"{helper}({name}) raised {tl.exc_name(r)}", bucket=f"{helper}|hints")
            elif list(r.items()) != list(want.items()):
                col.violation("agrees-with-runtime", case, f"{helper}({name}{', exhaustive=False' if kw else ''}) = {r!r}, typing.get_type_hints says {want!r}"[:500],
                              bucket=f"{helper}|hints")
    col.exhaustive_done = True


_FUT = None


def _future_module():
    """structured classes whose annotations are stringified (from __future__ import annotations)"""
    global _FUT
    if _FUT is None:
        import __future__ as _f
        src = ("import dataclasses, typing, decimal\n"
               "@dataclasses.dataclass\nclass FDC:\n    a: int\n    d: decimal.Decimal = decimal.Decimal(1)\n    cv: typing.ClassVar[int] = 3\n"
               "class FDCSub(FDC):\n    def total(self): return self.a\n"
               "class FPlain:\n    x: int\n    y: typing.Optional[FDC] = None\n"
               "class FPlainSub(FPlain):\n    pass\n")
        m = types.ModuleType("c17_future_mod")
        sys.modules[m.__name__] = m
        exec(compile(src, m.__name__, "exec", flags=_f.annotations.compiler_flag, dont_inherit=True), m.__dict__)  # noqa: S102
        _FUT = m
    return _FUT


def check_random_chain(c, col):
    """random wrapper chain over a catalogue base: class-valued predicates must see through it"""
    base_i, chain = c
    cat = [e for e in catalogue() if e["kind"] in ("class", "generic", "abc", "typing") and inspect.isclass(e["resolved"])]
    e = cat[base_i % len(cat)]
    obj = e["obj"]
    for i, w in enumerate(chain):
        obj = typing.NewType(f"RW{i}", obj) if w == "newtype" else typing.TypeAliasType(f"RA{i}", obj)
    res = e["resolved"]
    name = f"{'>'.join(chain)}({e['name']})"
    for pname, base in CLASS_PREDICATES.items():
        col.ev()
        col.nt(f"{pname}|{name}")
        r1, r2 = call(pname, obj)
        case = {"predicate": pname, "object": "chain:" + name, "base": e["name"], "chain": list(chain)}
        if r1[0] == "exc":
            col.violation("never-raises", case, f"{pname}({name}) raised {tl.exc_name(r1[1])}", bucket=f"{pname}|chain")
        elif bool(r1[1]) != issubclass(res, base):
            col.violation("agrees-with-runtime", case, f"{pname}({name}) = {r1[1]!r}, runtime says {issubclass(res, base)}", bucket=f"{pname}|chain")
    if len(col.samples) < core.MAX_SAMPLES:
        col.sample({"object": name, "resolved": res.__name__})


def check_unions(col):
    """union-valued special forms: every union over a small pool of stdlib / user members and None, in both
    spellings. isstdlibtype / isbuiltintype hold iff they hold for every non-None member (their documented
    reading of a union); isoptionaltype iff None is a member at any position; isuniontype always."""
    N = sys.modules[MOD].__dict__
    pool = [("int", int), ("str", str), ("Decimal", decimal.Decimal), ("date", datetime.date), ("DC", N["DC"]),
            ("MyStr", N["MyStr"]), ("E", N["E"]), ("Fraction", fractions.Fraction), ("None", type(None))]
    import functools as _ft
    import operator as _op
    for k in (2, 3):
        for combo in itertools.permutations(pool, k):
            members = [m for _, m in combo]
            for sp in ("Union", "pipe"):
                U_ = typing.Union[tuple(members)] if sp == "Union" else _ft.reduce(_op.or_, members)
                name = f"special:{sp}[{', '.join(n for n, _ in combo)}]"
                real = [m for m in members if m is not type(None)]
                wants = {"isstdlibtype": all(m in STDLIB for m in real), "isbuiltintype": None,
                         "isoptionaltype": len(real) != len(members), "isuniontype": True,
                         "isliteral": False, "isfinal": False, "isclassvartype": False, "isnonetype": False, "isforwardref": False}
                # the same union behind naming wrappers / ClassVar: Python resolves all of them to the union
                wrapped = [(name, U_)]
                if k == 2 and sp == "Union":
                    wrapped += [(f"alias({name})", typing.TypeAliasType("UA", U_)), (f"NewType({name})", typing.NewType("UN", U_)),
                                (f"alias(alias({name}))", typing.TypeAliasType("UAA", typing.TypeAliasType("UA", U_))),
                                (f"NewType(alias({name}))", typing.NewType("UNA", typing.TypeAliasType("UA", U_))),
                                (f"ClassVar[{name}]", typing.ClassVar[U_])]
                for wname, WU in wrapped:
                  for pname, want in wants.items():
                    # (behind a wrapper only isuniontype is judged: the statement lists wrappers for the class-valued predicates, and
                    # isoptionaltype / isstdlibtype of an alias of a union do not look through it on the pinned tree - not claimed)
                    if want is None or (WU is not U_ and pname != "isuniontype"):
                        continue
                    col.ev()
                    col.label("predicate:" + pname)
                    col.nt(f"{pname}|{wname}")
                    r1, r2 = call(pname, WU)
                    name = wname
                    case = {"predicate": pname, "object": name}
                    if r1[0] == "exc":
                        col.violation("never-raises", case, f"{pname}({name}) raised {tl.exc_name(r1[1])}", bucket=f"{pname}|union")
                    elif r2 != r1:
                        col.violation("stable", case, f"{pname}({name}): {r1[1]!r} then {r2[1]!r}", bucket=pname)
                    elif bool(r1[1]) != want:
                        col.violation("agrees-with-runtime", case, f"{pname}({name}) = {r1[1]!r}, expected {want!r}", bucket=f"{pname}|union")
    col.exhaustive_done = True


def check_late_definition(col):
    """A PEP 695 alias (`type X = list[Item]`) is inspected before the class its value names exists: resolving it fails, the
    caller handles that. Once the class is declared the alias is an ordinary alias: every answer must be the one given for a
    twin alias that nobody looked at too early ("stable across calls" includes calls that failed)."""
    from harness import late
    preds = ["istypealiastype", "origin", "unwrap", "iscollectiontype", "ismappingtype", "isiterabletype", "issubscriptedgeneric", "isuniontype",
             "isstructuredtype", "isstdlibtype", "args", "name", "qualname", "isforwardref", "isgeneric"]
    for aname in ("LazyItems", "LazyMap"):
        for early in (["origin"], ["istypealiastype"], ["unwrap", "iscollectiontype"], preds):
            tl.clear_all()
            twin = late.TwoPhase("c17twin").declare()
            want = {}
            for pn in preds:
                k, r = tl.call(getattr(I, pn), twin.mod.__dict__[aname])
                want[pn] = twin.norm(repr((k, r if k == "ok" else tl.exc_name(r))))
            twin.close()
            tl.clear_all()
            tp_ = late.TwoPhase("c17")
            try:
                X = tp_.mod.__dict__[aname]
                for pn in early:           # phase 1: may fail, handled
                    tl.call(getattr(I, pn), X)
                    tl.call(getattr(I, pn), typing.NewType("EarlyNT", X))
                tp_.declare()
                for pn in preds:
                    col.ev()
                    col.nt(f"late|{aname}|{early[:2]}|{pn}")
                    col.label("late-definition")
                    k, r = tl.call(getattr(I, pn), X)
                    got = tp_.norm(repr((k, r if k == "ok" else tl.exc_name(r))))
                    if got != want[pn]:
                        col.violation("stable", {"predicate": pn, "object": f"late:{aname}", "early": early[:3]},
                                      f"{pn}({aname}) after the alias was inspected before its target existed: {got[:200]}; for an alias nobody "
                                      f"looked at too early: {want[pn][:200]}", bucket=f"late-definition|{pn}")
            finally:
                tp_.close()
    col.exhaustive_done = True


def plan(tier, seed):
    shards = [{"kind": "catalogue", "lo": i, "step": 12} for i in range(12)]
    shards.append({"kind": "late-definition"})
    shards.append({"kind": "special"})
    shards.append({"kind": "unions"})
    for i in range(3):
        shards.append({"kind": "chains", "seed": seed * 1000 + i, "n": 1500 if tier == "quick" else 3000})
    return shards


def run_shard(shard, col):
    tl.clear_all()
    if shard["kind"] == "catalogue":
        check_catalogue(col, shard["lo"], shard["step"])
    elif shard["kind"] == "late-definition":
        check_late_definition(col)
    elif shard["kind"] == "unions":
        catalogue()
        check_unions(col)
    elif shard["kind"] == "special":
        catalogue()
        check_special(col)
        col.sample({"catalogue_size": len(catalogue()), "examples": [e["name"] for e in catalogue()[::37]][:12]})
    else:
        catalogue()
        strat = st.tuples(st.integers(0, 10 ** 6), st.lists(st.sampled_from(["newtype", "alias"]), min_size=1, max_size=3).map(tuple))
        core.drive(strat, lambda c: check_random_chain(c, col), n=shard["n"], seed=shard["seed"], col=col)
        col.exhaustive_done = True


def replay(clause, case, col):
    tl.clear_all()
    if case["object"].startswith("late:"):
        check_late_definition(col)
    elif case["object"].startswith(("special:", "spelling:", "instance:", "callable:")):
        catalogue()
        check_special(col)
        check_unions(col)
    elif case["object"].startswith("chain:"):
        cat = [e for e in catalogue() if e["kind"] in ("class", "generic", "abc", "typing") and inspect.isclass(e["resolved"])]
        i = next(i for i, e in enumerate(cat) if e["name"] == case["base"])
        check_random_chain((i, tuple(case["chain"])), col)
    else:
        check_catalogue(col)
