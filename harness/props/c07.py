"""C07 - recursive and mutually recursive types work at every depth.

Domain : every cyclic topology on 1 class and (sampled in quick / all in thorough) on 2 classes with
         out-degree <= 2, edges from {Optional[X], X | None, list[X], dict[str, X], tuple[X, ...]} and the same through *named*
         aliases / NewTypes declared after the classes (type Kids = list[Node]), the alias itself as root included;
         sampled 3-class topologies with mixed class flavours; recursive string-valued aliases; every
         class as root and every container of a cyclic class (list / dict / Optional / tuple[.., ...])
         as root; values of every depth d in 0..D (D = 12 quick, 150 thorough).
Oracle : routine / codec construction returns within a 30 s watchdog (typical: milliseconds) and raises
         nothing; round trip deep_same (C01); marshal(v) equals the harness-built wire form exactly,
         hence is json_plain at every level (C06); unmarshal of the harness-built wire form - and of the same
         structure given as *class instances whose members still hold wire values* - conforms at every level
         and equals v (C03/C05); codec decode(encode(v)) equals v.
"""

from __future__ import annotations

import sys
import threading

from harness import retry
from harness import core, tl
from harness import topology as tp
from harness import universe as U
from harness.core import st
from harness.oracles import deep_same, diff_bucket, exc_bucket, json_plain, snapshot, why_different

ID = "C07"
RULE = ("cyclic class topologies (all 1-class, sampled/all 2-class, sampled 3-class) and recursive aliases x every "
        "root x 5 embeddings x depths 0..D; non-trivial = depth >= 2 and (container edge or container root or >= 2 "
        "classes); distinct by (topology, root, embedding, flavours, depth)")
ASSUMPTIONS = ["'terminates' is decided by a 30 s watchdog (>1000x the typical construction time)",
               "values only use int scalar fields, so the harness-built wire form is exactly what marshal must produce"]
TECHNIQUE = "exhaustive/sampled enumeration of cycle topologies x deterministic depth-d values; round-trip, exact-wire (reference model) and conformance oracles at every depth, construction under watchdog"
LEVEL_TEXT = ("Enumerated cycle topologies with every class and every container of a cyclic class as root; for each, values "
              "of every depth up to D are marshalled (compared with a harness-built wire form level by level), unmarshalled "
              "(conformance at every level), round-tripped and passed through a codec.")
LEVEL_NOTE = "trusts harness.universe.plain_wire/conforms as the reference model of the wire form and of conformance"
EXHAUSTIVE_NOTE = "all 20 one-class cyclic topologies on every run; all 2950 two-class topologies only in the thorough tier"

DEPTHS_QUICK = [0, 1, 2, 3, 5, 8, 12]
DEPTHS_THOROUGH = list(range(0, 13)) + [20, 30, 50, 70, 100, 150]
# Beyond SOFT_FROM levels CPython 3.12's C-recursion limit may be reached inside the library's
# generator-based routines (measured: never at 70, sometimes at 90). There an exception means 'not below the
# interpreter's recursion limit' (outside the statement); a returned result is still judged.
SOFT_FROM = 71


def alias_specs():
    """recursive string-valued aliases"""
    S = U.S
    J = lambda n: {"k": "ref", "name": n, "mod": 0}  # noqa: E731
    out = []
    out.append(("J = dict[str, J | int]", {"k": "stralias", "name": "J1", "mod": 0, "a": [
        {"k": "dict", "sp": "dict", "a": [S("str"), {"k": "union", "sp": "pipe", "a": [J("J1"), S("int")]}]}]}))
    out.append(("J = list[J]", {"k": "stralias", "name": "J2", "mod": 0, "a": [{"k": "list", "sp": "list", "a": [J("J2")]}]}))
    out.append(("J = dict[str, list[J]]", {"k": "stralias", "name": "J3", "mod": 0, "a": [
        {"k": "dict", "sp": "dict", "a": [S("str"), {"k": "list", "sp": "list", "a": [J("J3")]}]}]}))
    out.append(("J = tuple[J, ...] | None", {"k": "stralias", "name": "J4", "mod": 0, "a": [
        {"k": "optional", "sp": "Optional", "a": [{"k": "vtuple", "sp": "tuple", "a": [J("J4")]}]}]}))
    # the same and further shapes as PEP 695 `type` statements: the value is a lazily evaluated expression, not text
    L = lambda n, body: {"k": "stralias", "lazy": True, "name": n, "mod": 0, "a": [body]}  # noqa: E731
    lst = lambda x: {"k": "list", "sp": "list", "a": [x]}  # noqa: E731
    dct = lambda x: {"k": "dict", "sp": "dict", "a": [S("str"), x]}  # noqa: E731
    out.append(("type J = dict[str, J | int]", L("L1", dct({"k": "union", "sp": "pipe", "a": [J("L1"), S("int")]}))))
    out.append(("type J = list[J]", L("L2", lst(J("L2")))))
    out.append(("type Rose = list[Rose] | int", L("L3", {"k": "union", "sp": "pipe", "a": [lst(J("L3")), S("int")]})))
    out.append(("type Chain = dict[str, Chain] | None", L("L4", {"k": "optional", "sp": "pipe", "a": [dct(J("L4"))]})))
    out.append(("type J = tuple[J, ...] | None", L("L5", {"k": "optional", "sp": "pipe", "a": [{"k": "vtuple", "sp": "tuple", "a": [J("L5")]}]})))
    back = L("Back", {"k": "optional", "sp": "pipe", "a": [dct(J("Fwd"))]})
    out.append(("type Fwd = list[Back] | int; type Back = dict[str, Fwd] | None", L("Fwd", {"k": "union", "sp": "pipe", "a": [lst(back), S("int")]})))
    fwd = L("Fwd2", {"k": "union", "sp": "pipe", "a": [lst(J("Back2")), S("int")]})
    out.append(("... rooted at Back", L("Back2", {"k": "optional", "sp": "pipe", "a": [dct(fwd)]})))
    return out


def check_program(spec, col, depths, meta):
    try:
        mat = U.materialise(spec)
    except Exception as e:
        col.label("harness:materialise-failed:" + type(e).__name__)
        return
    with mat:
        tl.clear_all()
        T = mat.root
        case0 = {"spec": spec, "root": mat.root_expr, **meta}
        # construction terminates
        col.ev()
        try:
            with core.watchdog(30):
                built = {name: tl.call(f, T) for name, f in (("marshaller", tl.marshaller), ("unmarshaller", tl.unmarshaller), ("codec", tl.codec))}
        except core.WatchdogTimeout:
            col.violation("construction-terminates", case0, f"building routines for {mat.root_expr} did not return within 30 s")
            return
        for name, (k, r) in built.items():
            if k == "exc":
                col.violation("construction-succeeds", case0, f"{name}({mat.root_expr}) raised {tl.exc_name(r)}: {r}", bucket=f"{name}|{exc_bucket(r)}")
        if any(k == "exc" for k, _ in built.values()):
            return
        cdc = built["codec"][1]
        multi = sum(1 for s in U.walk(spec) if s["k"] == "class") >= 2
        container = U.strip(spec)["k"] != "class" or any(s["k"] in ("list", "dict", "vtuple") for s in U.walk(spec))
        for d, falsy in [(d_, f_) for d_ in depths for f_ in ((False, True) if d_ <= 3 else (False,))]:
            if col.out_of_time():
                return
            try:
                v = U.deep_value(spec, mat, d, falsy=falsy)
                U.plain_wire(spec, v, mat)
            except U._Stop:
                continue
            except RecursionError:
                col.label(f"harness:own-recursion-limit:{d}")
                continue
            col.ev()
            col.label(f"depth:{d}")
            if falsy:
                col.label("leaves:falsy")
            if d >= 2 and (container or multi):
                col.nt(f"{mat.source()}|{d}")
                if d == 3:
                    col.sample({"program": mat.source()[:600], "depth": d, "value": U.to_src(v, mat)[:300]})
            case = dict(case0, depth=d, falsy=falsy)
            w = U.plain_wire(spec, v, mat)
            km, m = tl.call(tl.marshal, v, t=T)
            soft = d >= SOFT_FROM
            if km == "exc" and soft:
                col.label(f"above-interpreter-recursion-limit:{d}")
                continue
            if km == "exc":
                col.violation("marshal-succeeds", case, f"depth {d}: marshal raised {tl.exc_name(m)}: {m}", bucket=exc_bucket(m))
                continue
            bad = json_plain(m)
            if bad:
                col.violation("every-level-marshalled", case, f"depth {d}: {bad}", bucket="not-plain")
            elif snapshot(m) != snapshot(w):
                col.violation("every-level-marshalled", case, f"depth {d}: marshal = {m!r:.200}, wire form {w!r:.200}", bucket=diff_bucket(m, w))
            try:
                raw = U.instance_from_wire(spec, w, mat)
            except Exception:
                raw = w
            for src_name, wire in (("own-marshal", m), ("harness-wire", w), ("instances-holding-wire-values", raw)):
                ku, u = tl.call(tl.unmarshal, T, wire)
                if ku == "exc" and soft:
                    col.label(f"above-interpreter-recursion-limit:{d}")
                    continue
                if ku == "exc":
                    col.violation("unmarshal-succeeds", case, f"depth {d} [{src_name}]: unmarshal raised {tl.exc_name(u)}: {u}", bucket=exc_bucket(u))
                    continue
                e = U.conforms(spec, u, mat)
                if e:
                    col.violation("every-level-unmarshalled", case, f"depth {d} [{src_name}]: {e}", bucket=e.split(": ", 1)[-1][:50])
                elif not deep_same(u, v):
                    col.violation("round-trip", case, f"depth {d} [{src_name}]: {why_different(u, v)}", bucket=diff_bucket(u, v))
            if d in (1, 3) and not soft:
                # the same objects after a call that failed on one invalid member and was handled (member put back in place)
                for direction, obj, fcall in (("marshal", v, lambda o: tl.call(tl.marshal, o, t=T)), ("unmarshal", w, lambda o: tl.call(tl.unmarshal, T, o))):
                    r = retry.retry_after_failure(obj, fcall, d * 7 + len(direction))
                    if r is None:
                        continue
                    col.ev()
                    col.label(f"retry:first-call-{'failed' if r[0] else 'passed'}")
                    if r[2] != r[1]:
                        col.violation("every-level-marshalled" if direction == "marshal" else "every-level-unmarshalled", dict(case, retry=direction),
                                      f"depth {d}: {direction} failed on an invalid member, the member was put back in place, the same call then "
                                      f"{'raised ' + r[2][1] if r[2][0] == 'exc' else 'returned something else'}", bucket=f"retry|{direction}|{r[2][0]}")
            kc, b = tl.call(cdc.encode, v)
            soft = soft or d > 30  # the default JSON encoder (orjson) refuses documents nested deeper than 254 levels
            if kc == "exc" and soft:
                continue
            if kc == "exc":
                col.violation("codec-round-trip", case, f"depth {d}: encode raised {tl.exc_name(b)}: {b}", bucket=exc_bucket(b))
                continue
            kd, u3 = tl.call(cdc.decode, b)
            if kd == "exc" and soft:
                continue
            if kd == "exc" or not deep_same(u3, v):
                col.violation("codec-round-trip", case, f"depth {d}: decode(encode(v)) -> {tl.exc_name(u3) if kd == 'exc' else why_different(u3, v)}",
                              bucket="codec")


def run_topology(t, col, depths, flavours=None, future=False, mods=None, nest=None):
    for root in range(len(t)):
        if not tp.has_cycle(t, root):
            continue
        for emb in tp.EMBEDDINGS:
            if col.out_of_time():
                return
            spec = tp.to_spec(t, root, emb, flavours=flavours, future=future, mods=mods, nest=nest)
            col.label(f"embedding:{emb}")
            if nest and any(nest):
                col.label("classes-nested-in-a-class")
            check_program(spec, col, depths, {"topology": tp.describe(t), "root_class": root, "embedding": emb})


def plan(tier, seed):
    shards = [{"kind": "n1"}, {"kind": "aliases"}, {"kind": "aliasedges", "seed": seed}]
    # cycles that pass through a plain (by-value) field of a member class: `A.holder: Holder`, `Holder.a: A | None`
    k = 4 if tier == "quick" else 16
    shards += [{"kind": "memberfield", "mod": k, "rem": i, "stride": 24 if tier == "quick" else 1, "seed": seed} for i in range(k)]
    if tier == "quick":
        for i in range(8):
            shards.append({"kind": "n2", "mod": 8 * 12, "rem": (i * 12 + seed) % 96})
        for i in range(3):
            shards.append({"kind": "n3", "seed": seed * 1000 + i, "n": 20})
    else:
        for i in range(59):
            shards.append({"kind": "n2", "mod": 59, "rem": i})
        for i in range(4):
            shards.append({"kind": "n3", "seed": seed * 1000 + i, "n": 400})
    for s in shards:
        s["tier"] = tier
    return shards


def _run(shard, col):
    depths = DEPTHS_QUICK if shard["tier"] == "quick" else DEPTHS_THOROUGH
    if shard["kind"] == "n1":
        for t in tp.enumerate_topologies(1):
            for fl in ("dataclass", "namedtuple", "typeddict", "plain"):
                run_topology(t, col, depths, flavours=[fl], future=(fl == "plain"))
            run_topology(t, col, depths, flavours=["dataclass"], nest=[True])
            run_topology(t, col, depths, flavours=["plain"], future=True, nest=[True])
        col.exhaustive_done = True
    elif shard["kind"] == "aliases":
        for name, spec in alias_specs():
            for emb in ("self", "list", "dict"):
                check_program(tp.wrap(emb, spec), col, depths, {"topology": name, "embedding": emb})
        col.exhaustive_done = True
    elif shard["kind"] == "aliasedges":
        # cycles closed through *named* aliases / NewTypes of containers (declared after the classes), the alias
        # itself as root included
        kinds = tp.CYCLE_KINDS + tp.ALIAS_KINDS
        for t in tp.enumerate_topologies(1, kinds=kinds):
            if not any(k in tp.ALIAS_KINDS for _, k in t[0]):
                continue
            for root_emb in tp.EMBEDDINGS + ["edgealias"]:
                spec = tp.to_spec(t, 0, root_emb)
                col.label(f"embedding:{root_emb}")
                check_program(spec, col, depths, {"topology": tp.describe(t), "root_class": 0, "embedding": root_emb})
        for i, t in enumerate(tp.enumerate_topologies(2, kinds=kinds, max_out=1)):
            if not any(k in tp.ALIAS_KINDS for es in t for _, k in es) or (i + shard["seed"]) % 3:
                continue
            for root in (0, 1):
                for root_emb in ("self", "list", "edgealias"):
                    spec = tp.to_spec(t, root, root_emb)
                    check_program(spec, col, depths, {"topology": tp.describe(t), "root_class": root, "embedding": root_emb})
        col.exhaustive_done = True
    elif shard["kind"] == "memberfield":
        on_cycle = lambda t: any(k == "direct" and i in tp.reachable(t, tt) for i, es in enumerate(t) for tt, k in es)  # noqa: E731
        small = [t for t in tp.enumerate_topologies(2, kinds=tp.ALL_KINDS, max_out=1) if on_cycle(t)]
        big = [t for t in tp.enumerate_topologies(2, kinds=tp.ALL_KINDS, max_out=2) if on_cycle(t) and t not in small]
        big = [t for i, t in enumerate(big) if (i + shard["seed"]) % shard["stride"] == 0]
        for i, t in enumerate(small + big):
            if i % shard["mod"] == shard["rem"]:
                col.label("topology:by-value-field-on-cycle")
                run_topology(t, col, depths)
        col.exhaustive_done = True
    elif shard["kind"] == "n2":
        for i, t in enumerate(tp.enumerate_topologies(2)):
            if i % shard["mod"] == shard["rem"]:
                run_topology(t, col, depths)
        col.exhaustive_done = True
    else:
        @st.composite
        def t3(draw):
            n = 3
            classes = []
            for i in range(n):
                k = draw(st.integers(1, 2))
                classes.append(tuple((draw(st.integers(0, n - 1)), draw(st.sampled_from(tp.CYCLE_KINDS + ["direct"]))) for _ in range(k)))
            return tuple(classes), [draw(st.sampled_from(tp.FLAVOURS)) for _ in range(n)], draw(st.booleans()), [draw(st.integers(0, 1)) for _ in range(n)]

        # generate first, check afterwards: Hypothesis manages the recursion limit while a test function runs,
        # and depth-150 values need a deep stack
        cases = []
        core.drive(t3(), cases.append, n=shard["n"], seed=shard["seed"], col=col)
        sys.setrecursionlimit(30000)
        for t, fl, fut, mods in cases:
            if len(tp.reachable(t, 0)) != 3 or not tp.has_cycle(t, 0) or not tp.cycle_is_guarded(t):
                continue
            if col.out_of_time():
                break
            col.label("topology:3-class")
            run_topology(t, col, depths, flavours=fl, future=fut, mods=mods)
        col.exhaustive_done = True


def run_shard(shard, col):
    # deep values need a deep Python stack: run in a thread with a large stack and a high limit
    sys.setrecursionlimit(30000)
    threading.stack_size(512 * 1024 * 1024)
    err = []

    def target():
        try:
            _run(shard, col)
        except BaseException as e:  # noqa: BLE001
            err.append(e)

    th = threading.Thread(target=target)
    th.start()
    th.join()
    if err:
        raise err[0]


def exhaustive(tier):
    return tier == "thorough"


def replay(clause, case, col):
    sys.setrecursionlimit(30000)
    threading.stack_size(512 * 1024 * 1024)
    depths = [case["depth"]] if "depth" in case else DEPTHS_QUICK
    th = threading.Thread(target=lambda: check_program(case["spec"], col, depths, {"topology": case.get("topology", "?")}))
    th.start()
    th.join()
