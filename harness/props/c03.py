"""C03 - unmarshal never returns a value outside the target type.

Generator : programs of U (arbitrary unions included) x 25 inputs each from four sources in fixed
            proportion: corrupted wire forms of valid values (harness-built wire, 1-3 structural
            mutations), junk, text/bytes renderings (json/repr x 5 carriers x 3 encodings), valid
            wire forms.
Oracle    : raised Exception -> fine; returned r -> conforms(spec(T), r): the harness's independent
            structural type checker (exact container classes, every element/key/field, exact arity
            of fixed tuples, required TypedDict keys, type-strict Literal membership, enum members).
"""

from __future__ import annotations

from harness import inputs, progs, tl
from harness import universe as U
from harness.core import st
from harness.oracles import exc_bucket

ID = "C03"
RULE = ("programs of U x 25 inputs (40% corrupted wire, 30% junk, 20% text/bytes renderings, 10% valid wire); "
        "non-trivial = the call returned for an input that is not a valid wire form, or the input is a "
        "corrupted wire form (arity / keys / nesting changed); distinct by (spec, input source)")
ASSUMPTIONS = ["conforms() is a lower bound: subclass instances accepted at scalar leaves, extra TypedDict keys not judged, "
               "defaulted fields may hold their declared default None",
               "iterator/generator annotations are outside U, so results are never lazy"]
TECHNIQUE = "property-based testing: spec-directed corruption of harness-built wire forms + junk pool; validity-predicate oracle (independent structural type checker)"
LEVEL_TEXT = ("Exploration: tens of thousands of (annotation, arbitrary input) pairs per run; every returned value is "
              "checked position by position against the annotation by a checker that never calls typelib.")
LEVEL_NOTE = "trusts harness.universe.conforms as the meaning of 'structurally conforms to T'"


def check_input(p, src, kind, col):
    mat = p.mat
    col.ev()
    col.label("input:" + kind.split(":")[0])
    try:
        x = inputs.eval_src(src, mat)
    except Exception as e:  # generator fault
        col.label("harness:input-eval-failed:" + type(e).__name__)
        return
    # every route to the unmarshaller is judged: the function, the routine object, the codec's own unmarshal step
    route = ("function", "routine", "codec-unmarshal")[len(src) % 3]
    col.label("route:" + route)
    if route == "function":
        k, r = tl.call(tl.unmarshal, p.T, x)
    elif route == "routine":
        k, r = tl.call(lambda: tl.unmarshaller(p.T)(x))
    else:
        k, r = tl.call(lambda: tl.codec(p.T).unmarshal(x))
    if k == "exc":
        col.label("outcome:raised")
        if isinstance(r, RecursionError):
            col.violation("no-crash", p.case(input=src), f"RecursionError for input {src[:120]}", bucket="RecursionError")
        return
    col.label("outcome:returned")
    if kind != "valid-wire":
        col.nt(p.key + src)
        if len(src) < 200:
            col.sample({"T": mat.root_expr, "input": src, "source": kind, "returned": repr(r)[:120]})
    e = U.conforms(p.spec, r, mat)
    if e:
        import re
        b = re.sub(r"[0-9]+", "N", re.sub(r"'[^']*'", "S", e.split(": ", 1)[-1]))[:60]
        col.violation("conforms", p.case(input=src), f"unmarshal({mat.root_expr}, {src[:160]}) returned {r!r:.160}: {e}",
                      bucket=b)


# ---- bytes-like targets (C02: "bytes-like T is carried verbatim", so they are supported T) -----------------
BYTESLIKE_INPUTS = ["b'ab'", "bytearray(b'ab')", "memoryview(b'ab')", "memoryview(bytearray(b'ab'))", "'ab'", "'é'", "5", "1.5", "None",
                    "[1, 2]", "b''", "bytearray()", "True", "{'a': 1}", "b'[1]'", "'null'"]


def check_byteslike(col):
    import typing

    for tname, t in (("bytes", bytes), ("bytearray", bytearray), ("memoryview", memoryview)):
        shapes = {
            tname: (t, lambda x: x, lambda r: [r]),
            f"list[{tname}]": (list[t], lambda x: [x, x], lambda r: list(r) if type(r) is list else None),
            f"dict[str, {tname}]": (dict[str, t], lambda x: {"k": x}, lambda r: list(r.values()) if type(r) is dict else None),
            f"typing.Optional[{tname}]": (typing.Optional[t], lambda x: x, lambda r: [] if r is None else [r]),
            f"tuple[{tname}, int]": (tuple[t, int], lambda x: [x, 1], lambda r: [r[0]] if type(r) is tuple and len(r) == 2 else None),
        }
        for expr, (T, wrap, leaves) in shapes.items():
            for src in BYTESLIKE_INPUTS:
                tl.clear_all()
                x = wrap(eval(src))  # noqa: S307
                col.ev()
                col.nt(f"byteslike|{expr}|{src}")
                routes = [("unmarshal", lambda: tl.unmarshal(T, x)), ("unmarshaller", lambda: tl.unmarshaller(T)(x))]
                if expr == tname and isinstance(x, (bytes, bytearray, memoryview)):
                    # a bytes-like root is its own wire format: the decode routes hand the payload to the same unmarshaller
                    routes += [("typelib.decode", lambda: tl.typelib.decode(T, x)), ("codec.decode", lambda: tl.codec(T).decode(x)),
                               ("typelib.decode(Final)", lambda: tl.typelib.decode(typing.Final[T], x)),
                               ("typelib.decode(NewType)", lambda: tl.typelib.decode(typing.NewType("Blob", T), x))]
                for route, f in routes:
                    k, r = tl.call(f)
                    col.label("route:" + route)
                    if k == "exc":
                        col.label("outcome:raised")
                        continue
                    col.label("outcome:returned")
                    ls = leaves(r)
                    bad = "wrong container" if ls is None else next((f"{v!r} is {type(v).__name__}, not {tname}" for v in ls if not isinstance(v, t)), None)
                    if bad:
                        col.violation("conforms", {"byteslike": True, "T": expr, "input": src, "route": route},
                                      f"{route}({expr}, {src} in that shape) returned {r!r:.100}: {bad}", bucket=f"byteslike|{route}|{tname}|{type(eval(src)).__name__}")  # noqa: S307
    col.exhaustive_done = True


# ---- mappings fed text that is not a JSON object ------------------------------------------------------------
MAPPING_TEXTS = ["{1: 2}", "[5, 6]", "{'a': 1}", '{"a": 1}', "{None: 1}", "{(1, 2): 3}", "[[1, 2]]", "[('a', 1)]", "{1.5: 2}", "{True: 1}",
                 "()", "[]", "{}", "{1: 'x', 'b': 2}", "[['a', 1], ['b', 2]]", "{'a': {1: 2}}", "[{1: 2}]", "{b'k': 1}", "1, 2", "{1, 2}"]


SUBCLASS_SRC = '''
import datetime, decimal, fractions, pathlib, uuid
class MyDate(datetime.date): pass
class MyDateTime(datetime.datetime): pass
class MyTime(datetime.time): pass
class MyDelta(datetime.timedelta): pass
class MyDecimal(decimal.Decimal): pass
class MyFraction(fractions.Fraction): pass
class MyPath(pathlib.PurePosixPath): pass
class MyStr(str): pass
class MyInt(int): pass
class MyFloat(float): pass
'''
SUBCLASS_INPUTS = {
    "MyDate": ["datetime.date(2024, 2, 29)", "'2024-02-29'", "datetime.datetime(2024, 1, 1, 5)", "19782"],
    "MyDateTime": ["datetime.datetime(2024, 1, 1, 5, tzinfo=datetime.timezone.utc)", "'2024-01-01T05:00:00+00:00'", "datetime.date(2024, 2, 29)", "0"],
    "MyTime": ["datetime.time(1, 2, 3)", "'01:02:03'", "5"], "MyDelta": ["datetime.timedelta(seconds=5)", "'PT5S'", "5"],
    "MyDecimal": ["decimal.Decimal('1.5')", "'1.5'", "1"], "MyFraction": ["fractions.Fraction(1, 3)", "'1/3'", "2"],
    "MyPath": ["pathlib.PurePosixPath('a/b')", "'a/b'"], "MyStr": ["'abc'", "5"], "MyInt": ["5", "'7'", "True"], "MyFloat": ["1.5", "'2.5'", "3"],
}


def check_subclass_targets(col):
    """targets that are strict subclasses of the stdlib scalar classes ("date or subclasses"): an instance of the *base* class
    is no instance of the target - what comes back is an instance of the target (or the call raises)"""
    import datetime, decimal, fractions, pathlib, sys, types, typing
    m = types.ModuleType("c03_subclasses")
    sys.modules[m.__name__] = m
    exec(SUBCLASS_SRC, m.__dict__)  # noqa: S102
    ns_ = {"datetime": datetime, "decimal": decimal, "fractions": fractions, "pathlib": pathlib}
    for name, srcs in SUBCLASS_INPUTS.items():
        C = m.__dict__[name]
        for shape, T, wrap_in, unwrap_out in (("root", C, lambda x: x, lambda r: [r]), ("list", list[C], lambda x: [x, x], list),
                                               ("dict", dict[str, C], lambda x: {"k": x}, lambda r: list(r.values())),
                                               ("optional", typing.Optional[C], lambda x: x, lambda r: [r])):
            for src in srcs:
                tl.clear_all()
                x = eval(src, ns_)  # noqa: S307
                col.ev()
                col.nt(f"subclass|{name}|{shape}|{src}")
                col.label("subclass-target")
                k, r = tl.call(tl.unmarshal, T, wrap_in(x))
                if k == "exc":
                    continue
                bad = [y for y in unwrap_out(r) if not isinstance(y, C)]
                if bad:
                    col.violation("conforms", {"subclass_target": name, "shape": shape, "input": src},
                                  f"unmarshal({shape} of {name}, {src}) returned {r!r}: {type(bad[0]).__name__} is no {name}", bucket=f"subclass-target|{name}")


def check_mapping_text(col):
    import typing

    K = {"str": str, "int": int}
    V = {"int": int, "str": str}
    for kn, kt in K.items():
        for vn, vt in V.items():
            for sp, mk in (("dict", lambda a, b: dict[a, b]), ("typing.Mapping", lambda a, b: typing.Mapping[a, b]),
                           ("Optional-dict", lambda a, b: typing.Optional[dict[a, b]]), ("list-of-dict", lambda a, b: list[dict[a, b]]),
                           ("dict-of-dict", lambda a, b: dict[str, dict[a, b]])):
                T = mk(kt, vt)
                for text in MAPPING_TEXTS:
                    for carrier in ("str", "bytes", "value"):
                        if carrier == "value":
                            try:
                                x = eval(text)  # noqa: S307
                            except Exception:
                                continue
                        else:
                            x = text if carrier == "str" else text.encode()
                        tl.clear_all()
                        col.ev()
                        col.nt(f"maptext|{sp}[{kn},{vn}]|{text}|{carrier}")
                        k, r = tl.call(tl.unmarshal, T, x)
                        if k == "exc":
                            col.label("outcome:raised")
                            continue
                        col.label("outcome:returned")
                        dicts = [r] if sp in ("dict", "typing.Mapping") else ([] if r is None else [r]) if sp == "Optional-dict" else \
                            (list(r) if type(r) is list else [None]) if sp == "list-of-dict" else (list(r.values()) if type(r) is dict else [None])
                        bad = None
                        for d in dicts:
                            if type(d) is not dict:
                                bad = f"{d!r} is {type(d).__name__}, not dict"
                                break
                            bad = next((f"key {a!r} is {type(a).__name__}, not {kn}" for a in d if not isinstance(a, kt)), None) or \
                                next((f"value {b!r} is {type(b).__name__}, not {vn}" for b in d.values() if not isinstance(b, vt)), None)
                            if bad:
                                break
                        if bad:
                            col.violation("conforms", {"mapping_text": True, "T": f"{sp}[{kn}, {vn}]", "input": text, "carrier": carrier},
                                          f"unmarshal({sp}[{kn}, {vn}], {carrier} of {text}) returned {r!r:.100}: {bad}", bucket=f"maptext|{kn}|{bad.split(' is ')[-1][:30]}")
    col.exhaustive_done = True


def check_raw_instances(p, vs, col):
    """instances of the root class (or containers of them) whose members still hold wire values - constructors do not validate -
    given to every route: what comes back must conform, member by member"""
    s_ = U.strip(p.spec)
    if not U.has_kind(s_, "class") or vs is None:
        return
    for _ in range(2):
        v = p.draw(vs)
        try:
            w = U.plain_wire(p.spec, v, p.mat)
            raw = U.instance_from_wire(p.spec, w, p.mat)
        except Exception:
            return
        for route, f in (("function", lambda: tl.unmarshal(p.T, raw)), ("routine", lambda: tl.unmarshaller(p.T)(raw)), ("codec-unmarshal", lambda: tl.codec(p.T).unmarshal(raw))):
            col.ev()
            col.label("input:instances-holding-wire-values")
            k, r = tl.call(f)
            if k == "exc":
                continue
            e = U.conforms(p.spec, r, p.mat)
            if e:
                col.violation("conforms", p.case(value=p.src(v), raw_instances=True, route=route),
                              f"{route}: unmarshal({p.mat.root_expr}, <instances holding wire values>) returned {r!r:.160}: {e}", bucket=f"raw-instances|{route}")


def per_program(p):
    if p.data is not None and p.draw(st.integers(0, 2)) == 0:
        p.warm("marshaller")   # the routines of the other direction built first
    try:
        vs = U.values(p.spec, p.mat, max_elems=3)
    except U._Exhausted:
        vs = None
    check_raw_instances(p, vs, p.col)
    strat = inputs.any_input(p, vs)
    for _ in range(25):
        src, kind = p.draw(strat)
        check_input(p, src, kind, p.col)


def check_late_definition(col):
    """unmarshal(T, x) fails because a class T's annotations name does not exist yet, the caller handles the NameError, the
    class is declared, the same call again: what is returned now must conform to T like in a module where nothing ever failed"""
    from harness import late
    from harness.oracles import snapshot
    inputs_ = {"Order": ["{'number': '7', 'first': {'sku': 'a', 'qty': '2'}, 'items': [{'sku': 'b'}]}", "{'number': 1, 'first': {'sku': 1}, 'items': []}",
                         "{'number': 'x', 'first': {}, 'items': []}"],
               "ItemAlias": ["{'sku': 'a', 'qty': '3'}", "{'qty': 1}"], "ItemList": ["[{'sku': 'a', 'qty': '3'}]", "'[{\"sku\": \"z\"}]'"],
               "LazyItems": ["[{'sku': 'a', 'qty': '3'}]"], "LazyMap": ["{'k': {'sku': 'a', 'qty': '3'}}"], "ItemRef": ["{'sku': 'q', 'qty': '4'}"]}
    for name, srcs in inputs_.items():
        for early_ops in (("unmarshal",), ("unmarshaller",), ("unmarshal", "unmarshal")):
            tl.clear_all()
            twin = late.TwoPhase("c03twin").declare()
            ref = {}
            for src in srcs:
                k, r = tl.call(tl.unmarshal, twin.mod.__dict__[name], eval(src))  # noqa: S307
                ref[src] = twin.norm(repr((k, snapshot(r) if k == "ok" else tl.exc_name(r))))
            twin.close()
            tl.clear_all()
            tp_ = late.TwoPhase("c03")
            try:
                T = tp_.mod.__dict__[name]
                for op in early_ops:   # phase 1: expected to fail, handled
                    tl.call(tl.unmarshal, T, eval(srcs[0])) if op == "unmarshal" else tl.call(tl.unmarshaller, T)  # noqa: S307
                tp_.declare()
                for src in srcs:
                    col.ev()
                    col.nt(f"late|{name}|{early_ops}|{src}")
                    col.label("late-definition")
                    k, r = tl.call(tl.unmarshal, tp_.mod.__dict__[name], eval(src))  # noqa: S307
                    got = tp_.norm(repr((k, snapshot(r) if k == "ok" else tl.exc_name(r))))
                    if got != ref[src]:
                        col.violation("conforms", {"late": name, "early_ops": list(early_ops), "input": src},
                                      f"unmarshal({name}, {src}) after a first attempt failed before the referenced class existed: {got[:300]}; "
                                      f"in a module where nothing failed before: {ref[src][:300]}", bucket=f"late-definition|{name}")
            finally:
                tp_.close()


def plan(tier, seed):
    n = 160 if tier == "quick" else 1500
    depth = 4 if tier == "quick" else 5
    shards = [{"seed": seed * 1000 + k, "n": n, "depth": depth, "adversarial": k % 2 == 1} for k in range(16)]
    # one parameterised generic met twice in one annotation (nested first / bare first)
    shards += [{"seed": seed * 1000 + 70 + k, "n": n, "depth": 3, "repeated": True} for k in range(2)]
    # TypedDicts extending a TypedDict of the other totality (required keys are decided per declaring class)
    shards += [{"seed": seed * 1000 + 80 + k, "n": 120 if tier == "quick" else 1500, "depth": 2, "tdh": True} for k in range(2)]
    shards.append({"kind": "byteslike"})
    shards.append({"kind": "mapping-text"})
    shards.append({"kind": "late-definition"})
    shards.append({"kind": "subclass-targets"})
    return shards


def run_shard(shard, col):
    if shard.get("kind") == "subclass-targets":
        check_subclass_targets(col)
        return
    if shard.get("kind") == "late-definition":
        check_late_definition(col)
        return
    if shard.get("kind") == "byteslike":
        check_byteslike(col)
        return
    if shard.get("kind") == "mapping-text":
        check_mapping_text(col)
        return
    progs.drive_programs(col, seed=shard["seed"], n=shard["n"],
                         spec_strategy=U.repeated_generic_specs() if shard.get("repeated") else U.typeddict_hierarchy_specs() if shard.get("tdh") else U.root_specs(max_depth=shard["depth"], mods=3 if shard.get("adversarial") else 2, adversarial=bool(shard.get("adversarial"))), per_program=per_program)


def replay(clause, case, col):
    if case.get("subclass_target"):
        check_subclass_targets(col)
        return
    if case.get("byteslike"):
        check_byteslike(col)
        return
    if case.get("mapping_text"):
        check_mapping_text(col)
        return
    if case.get("late"):
        check_late_definition(col)
        return
    progs.replay_program(case, col, lambda p: check_input(p, case["input"], "replay", col))


def cg_plan(seed):
    """coverage-guided shards of the thorough tier (harness/cg.py): same strategies and check functions, choices from libFuzzer"""
    return [{"seed": seed * 1000 + 900 + k, "n": 0, "depth": 4, "cg": {"runs": 6000}} for k in range(4)]
