"""C05 - nested members are converted by their own type's rules (compositional law).

For every composite node N of a generated program (subscripted collection, mapping, fixed tuple,
structured class) and its sub-input x_N, the library's routine for N must equal the harness's
*one-level rebuild*: the composite put together from each member value converted by the routine
obtained independently for that member's annotated type (fresh top-level unmarshaller(M_i) /
marshaller(M_i), caches cleared before). By induction over the nodes the root result equals a fully
independent reconstruction. If a member routine raises, the composite must raise the same class
(first failing member in input iteration order, key before value per pair).

Programs use adversarial naming: class names from {A, B, Item} repeated across 3 modules, field names
from a small pool shared between classes with different types, diamonds (one class reachable on
several paths), one generic (e.g. list[Leaf]) reused on several paths, aliases as members.
Structured sources come in four shapes: mapping, iterable of pairs, JSON text, instance of another
structured class with the same fields - all must convert alike.
"""

from __future__ import annotations

import dataclasses
import json
import types
import typing

from harness import inputs, progs, tl
from harness import universe as U
from harness.core import st
from harness import retry
from harness.oracles import deep_same, diff_bucket, exc_bucket, snapshot, why_different

ID = "C05"
RULE = ("adversarially named programs (3 modules) x 4 valid values x every composite node x {unmarshal, marshal} plus "
        "single-member corruptions and 4 source shapes for structured nodes; non-trivial = the node is nested (>= 2 "
        "composite levels) and the program has a name collision, a diamond, a repeated generic, an alias member, or "
        "the source is not a mapping; distinct by (spec, node path, direction, input)")
ASSUMPTIONS = ["union / Optional nodes are opaque members (their routine is obtained independently like any other member)",
               "fields missing from the source are absent from kwargs on both sides; TypedDict / NamedTuple use their own constructors"]
TECHNIQUE = "property-based testing: compositional (metamorphic) oracle - library result vs one-level rebuild from independently obtained member routines at every composite node; exception parity; source-shape equivalence"
LEVEL_TEXT = ("Exploration over adversarially named multi-module programs: at every composite node the routine's result is "
              "compared with the composite rebuilt from independently built member routines, for valid inputs, single-member "
              "corruptions (exception parity) and four source shapes.")
LEVEL_NOTE = "trusts the documented one-level composite semantics encoded in rebuild_unmarshal/rebuild_marshal (list/dict/tuple/origin(...), 'filter to known fields, call T(**kwargs)')"


class _Raised(Exception):
    def __init__(self, exc):
        self.exc = exc


def _call(routine, x):
    try:
        return routine(x)
    except Exception as e:  # noqa: BLE001
        raise _Raised(e) from None


def composite_nodes(spec, wire, value, mat, path="$", depth=0, out=None):
    """(spec_N, wire_N, value_N, path, depth) for every composite node, following the value."""
    out = [] if out is None else out
    k = spec["k"]
    if k in ("newtype", "alias", "stralias", "final", "classvar"):
        return composite_nodes(spec["a"][0], wire, value, mat, path, depth, out)
    if k == "ref":
        return composite_nodes(mat.resolve(spec), wire, value, mat, path, depth, out)
    if k == "optional":
        if value is not None:
            composite_nodes(spec["a"][0], wire, value, mat, path, depth, out)
        return out
    if k == "union":
        return out  # opaque
    if k in ("list", "set", "frozenset", "deque", "vtuple"):
        out.append((spec, wire, value, path, depth))
        for i, (w, v) in enumerate(zip(wire, value)):
            composite_nodes(spec["a"][0], w, v, mat, f"{path}[{i}]", depth + 1, out)
    elif k == "tuple":
        out.append((spec, wire, value, path, depth))
        for i, (s, w, v) in enumerate(zip(spec["a"], wire, value)):
            composite_nodes(s, w, v, mat, f"{path}[{i}]", depth + 1, out)
    elif k == "dict":
        out.append((spec, wire, value, path, depth))
        for (wk, wv), (vk, vv) in zip(wire.items(), value.items()):
            composite_nodes(spec["a"][1], wv, vv, mat, f"{path}[{wk!r}]", depth + 1, out)
    elif k == "class":
        out.append((spec, wire, value, path, depth))
        td = spec["flavour"].startswith("typeddict")
        for f in spec["fields"]:
            if f["n"] in wire:
                v = value[f["n"]] if td else getattr(value, f["n"])
                composite_nodes(f["t"], wire[f["n"]], v, mat, f"{path}.{f['n']}", depth + 1, out)
    return out


def member_ann(spec, mat):
    return mat.annotation(spec)


def rebuild_unmarshal(spec, x, mat):
    """one-level composite semantics with independently obtained member unmarshallers"""
    k = spec["k"]
    R = lambda s: tl.unmarshaller(member_ann(s, mat))  # noqa: E731
    if k in ("list", "set", "frozenset", "deque", "vtuple"):
        r = R(spec["a"][0])
        return U.ORIGIN[k](_call(r, e) for e in x)
    if k == "tuple":
        rs = [R(s) for s in spec["a"]]
        return tuple(_call(r, e) for r, e in zip(rs, x))
    if k == "dict":
        rk, rv = R(spec["a"][0]), R(spec["a"][1])
        items = x.items() if isinstance(x, dict) else x
        return {_call(rk, a): _call(rv, b) for a, b in items}
    if k == "class":
        cls = mat.cls(spec)
        fields = {f["n"]: f for f in spec["fields"]}
        items = x.items() if isinstance(x, dict) else x
        kwargs = {}
        for name, val in items:
            if name in fields:
                f = fields[name]
                hints_ = typing.get_type_hints(cls) if hasattr(cls, "__annotations__") else {}
                ann = hints_[name] if name in hints_ else member_ann(f["t"], mat)   # (fields declared by the constructor's signature only)
                kwargs[name] = _call(tl.unmarshaller(ann), val)
        return cls(**kwargs)
    raise ValueError(k)


def rebuild_marshal(spec, v, mat):
    k = spec["k"]
    R = lambda s: tl.marshaller(member_ann(s, mat))  # noqa: E731
    if k in ("list", "set", "frozenset", "deque", "vtuple"):
        r = R(spec["a"][0])
        return [_call(r, e) for e in v]
    if k == "tuple":
        return [_call(R(s), e) for s, e in zip(spec["a"], v)]
    if k == "dict":
        rk, rv = R(spec["a"][0]), R(spec["a"][1])
        return {_call(rk, a): _call(rv, b) for a, b in v.items()}
    if k == "class":
        cls = mat.cls(spec)
        hints = typing.get_type_hints(cls)
        td = spec["flavour"].startswith("typeddict")
        out = {}
        for f in spec["fields"]:
            if td and f["n"] not in v:
                continue
            val = v[f["n"]] if td else getattr(v, f["n"])
            out[f["n"]] = _call(tl.marshaller(hints[f["n"]] if f["n"] in hints else member_ann(f["t"], mat)), val)
        return out
    raise ValueError(k)


def outcome(f, *a):
    try:
        return ("ok", f(*a))
    except _Raised as r:
        return ("exc", r.exc)
    except Exception as e:  # noqa: BLE001
        return ("exc", e)


def same_outcome(a, b):
    if a[0] != b[0]:
        return False
    if a[0] == "exc":
        return type(a[1]) is type(b[1])
    return deep_same(a[1], b[1])


def describe(o):
    return f"raises {tl.exc_name(o[1])}: {str(o[1])[:80]}" if o[0] == "exc" else f"returns {o[1]!r:.140}"


def features(spec, mat):
    """adversarial features of the program (for the non-trivial rule and labels)"""
    names = {}
    fields = {}
    refs = 0
    generic_ids = {}
    feats = set()
    for s in U.walk(spec):
        if s["k"] == "class":
            names.setdefault(s["name"], set()).add(s["mod"])
            for f in s["fields"]:
                fields.setdefault(f["n"], set()).add(U.spec_key(f["t"]))
                if f["t"]["k"] in ("alias", "stralias", "newtype"):
                    feats.add("alias-member")
        if s["k"] == "ref":
            refs += 1
        if s["k"] in ("list", "dict", "deque", "vtuple"):
            generic_ids[id(s)] = generic_ids.get(id(s), 0) + 1
    if any(len(m) > 1 for m in names.values()):
        feats.add("class-name-collision")
    if any(len(t) > 1 for t in fields.values()):
        feats.add("field-name-collision")
    if refs:
        feats.add("diamond-or-cycle")
    if any(c > 1 for c in generic_ids.values()):
        feats.add("repeated-generic")
    return feats


class _PlainMapping(__import__("collections").abc.Mapping):
    """a Mapping that is no dict"""

    def __init__(self, d):
        self._d = dict(d)

    def __getitem__(self, k):
        return self._d[k]

    def __iter__(self):
        return iter(self._d)

    def __len__(self):
        return len(self._d)


def member_instances(spec, wire, mat):
    """`wire` with every direct member that is (or holds) a structured class replaced by an instance of that class whose
    own members still hold their wire values; None if no direct member is structured"""
    k = spec["k"]
    structured = lambda s: U.has_kind(s, "class", "ref")  # noqa: E731
    I = lambda s, w: U.instance_from_wire(s, w, mat)  # noqa: E731
    try:
        if k in ("list", "set", "frozenset", "deque", "vtuple") and isinstance(wire, list) and wire and structured(spec["a"][0]):
            return [I(spec["a"][0], w) for w in wire]
        if k == "tuple" and isinstance(wire, list) and any(structured(s) for s in spec["a"]):
            return [I(s, w) for s, w in zip(spec["a"], wire)]
        if k == "dict" and isinstance(wire, dict) and wire and structured(spec["a"][1]):
            return {kk: I(spec["a"][1], w) for kk, w in wire.items()}
        if k == "class" and isinstance(wire, dict) and any(structured(f["t"]) for f in spec["fields"] if f["n"] in wire):
            return {f["n"]: I(f["t"], wire[f["n"]]) for f in spec["fields"] if f["n"] in wire}
    except Exception:
        return None
    return None


_ROWS = {}


def row_sources(members):
    """instances of structured classes (dataclass, NamedTuple, annotated plain class, slots-only class) whose public fields,
    in declaration order, hold `members`: what serdes.itervalues documents as 'the contained values of any object'"""
    n = len(members)
    if n not in _ROWS:
        names = [f"f{i}" for i in range(n)]
        DC = dataclasses.make_dataclass(f"RowDC{n}", [(a, typing.Any) for a in names])
        NT = typing.NamedTuple(f"RowNT{n}", [(a, typing.Any) for a in names])
        ns = {"__annotations__": {a: typing.Any for a in names}}
        exec("def __init__(self, *a):\n" + "".join(f"    self.{a} = a[{i}]\n" for i, a in enumerate(names)), ns)  # noqa: S102
        PC = type(f"RowPlain{n}", (), dict(ns))
        SL = type(f"RowSlots{n}", (), {"__slots__": tuple(names), "__init__": ns["__init__"]})
        _ROWS[n] = {"dataclass-instance": DC, "namedtuple-instance": NT, "plain-class-instance": PC, "slots-instance": SL}
    return {name: cls(*members) for name, cls in _ROWS[n].items()}


JUNK_MEMBER = ["object()", "'not-valid-\\x00'", "[[['x']]]", "{'zz': object()}", "1j", "b'\\xff\\xfe'"]


def check_node(p, node, col, feats):
    spec_n, wire, value, path, depth = node
    mat = p.mat
    T_n = mat.annotation(spec_n) if spec_n["k"] != "class" else mat.cls(spec_n)
    case_base = {"spec": p.spec, "root": mat.root_expr, "node_path": path, "value": U.to_src(value, mat)}
    nontriv = depth >= 1 and bool(feats)
    # ---- unmarshal: valid wire --------------------------------------------------------------
    for direction in ("unmarshal", "marshal"):
        col.ev()
        tl.clear_all()
        if direction == "unmarshal":
            lib = outcome(tl.unmarshal, T_n, wire)
            tl.clear_all()
            ref = outcome(rebuild_unmarshal, spec_n, wire, mat)
        else:
            lib = outcome(lambda: tl.marshal(value, t=T_n))
            tl.clear_all()
            ref = outcome(rebuild_marshal, spec_n, value, mat)
        col.label(f"{direction}:{spec_n['k']}")
        if nontriv:
            col.nt(p.key + path + direction)
        if not same_outcome(lib, ref):
            col.violation(f"{direction}-equals-rebuild", dict(case_base, direction=direction),
                          f"node {path} ({mat.expr(spec_n, None)}): library {describe(lib)}; rebuilt from member routines {describe(ref)}",
                          bucket=f"{spec_n['k']}|{diff_bucket(lib[1], ref[1]) if lib[0] == ref[0] == 'ok' else lib[0] + '/' + ref[0]}"[:90])
    # ---- members given as instances of their own class whose fields still hold wire values ---------------
    inst = member_instances(spec_n, wire, mat)
    if inst is not None:
        col.ev()
        col.label("member-instances")
        tl.clear_all()
        lib = outcome(tl.unmarshal, T_n, inst)
        tl.clear_all()
        ref = outcome(rebuild_unmarshal, spec_n, inst, mat)
        if nontriv:
            col.nt(p.key + path + "member-instances")
        if not same_outcome(lib, ref):
            col.violation("unmarshal-equals-rebuild", dict(case_base, direction="unmarshal", member_instances=True),
                          f"node {path} ({mat.expr(spec_n, None)}) with structured members given as instances holding wire values: "
                          f"library {describe(lib)}; rebuilt from member routines {describe(ref)}",
                          bucket=f"member-instances|{spec_n['k']}|{diff_bucket(lib[1], ref[1]) if lib[0] == ref[0] == 'ok' else lib[0] + '/' + ref[0]}"[:90])
    # ---- the members of a collection / tuple handed over as the fields of a structured instance (serdes.itervalues: "the
    #      contained values for any object"): converts like the plain list of the same members; the members are wire values,
    #      instances of their own class, or (marshal side) the values themselves
    if spec_n["k"] in ("list", "deque", "vtuple", "tuple", "set", "frozenset") and isinstance(wire, list) and 1 <= len(wire) <= 6:
        variants = [("unmarshal", "wire", list(wire))]
        if inst is not None:
            variants.append(("unmarshal", "instances", list(inst)))
        if spec_n["k"] in ("list", "deque", "vtuple", "tuple"):
            variants.append(("marshal", "values", list(value)))
        for direction, what, members in variants:
            call = (lambda x: tl.unmarshal(T_n, x)) if direction == "unmarshal" else (lambda x: tl.marshal(x, t=T_n))
            tl.clear_all()
            base = outcome(call, list(members))
            for name, src in row_sources(members).items():
                col.ev()
                col.label(f"row-source:{direction}:{name}")
                if nontriv:
                    col.nt(p.key + path + "row" + direction + what + name)
                tl.clear_all()
                o = outcome(call, src)
                if not same_outcome(o, base):
                    col.violation("source-shapes-agree", dict(case_base, shape=name, direction=direction, members=what),
                                  f"node {path} ({mat.expr(spec_n, None)}) {direction}: members ({what}) given as a list {describe(base)}; "
                                  f"as the fields of a {name} {describe(o)}",
                                  bucket=f"row|{direction}|{name}|{what}|{o[0]}/{base[0]}")
    # ---- marshal side: one direct member replaced by None / by something its type does not accept (the member routine decides
    #      what happens to it - also for None under a member type that is not Optional)
    if spec_n["k"] in ("list", "deque", "vtuple", "tuple", "dict") and len(value) > 0:
        for junk_src in ("None", "object()"):
            junk = inputs.eval_src(junk_src)
            if spec_n["k"] == "dict":
                kk = next(iter(value))
                bad_v = dict(value)
                bad_v[kk] = junk
            else:
                items_ = list(value)
                items_[len(items_) // 2] = junk
                bad_v = type(value)(items_) if spec_n["k"] != "deque" else type(value)(items_)
            col.ev()
            col.label("corrupted-member:marshal")
            tl.clear_all()
            lib = outcome(lambda: tl.marshal(bad_v, t=T_n))
            tl.clear_all()
            ref = outcome(rebuild_marshal, spec_n, bad_v, mat)
            if nontriv:
                col.nt(p.key + path + "marshal-corrupt" + junk_src)
            if not same_outcome(lib, ref):
                col.violation("exception-parity", dict(case_base, direction="marshal", junk=junk_src),
                              f"node {path} ({mat.expr(spec_n, None)}) marshalled with one member := {junk_src}: library {describe(lib)}; rebuilt from member routines {describe(ref)}",
                              bucket=f"marshal|{spec_n['k']}|{lib[0]}/{ref[0]}")
    # ---- mapping keys that compare (and hash) equal across classes, in one pairs input and as mappings one after the other
    if spec_n["k"] == "dict" and isinstance(wire, dict) and wire:
        import decimal as _dec
        w0 = next(iter(wire.values()))
        groups = [[True, 1, 1.0, _dec.Decimal("1.0"), _dec.Decimal("1.00"), "1"], [0, False, 0.0, _dec.Decimal("0"), _dec.Decimal("-0.0")],
                  [2.0, 2, _dec.Decimal("2.00")]]
        for keys_ in groups:
            inputs_ = [("pairs", [(k_, w0) for k_ in keys_])] + [("mapping", {k_: w0}) for k_ in keys_]
            tl.clear_all()
            libs = [outcome(tl.unmarshal, T_n, x_) for _, x_ in inputs_]
            tl.clear_all()
            refs_ = [outcome(rebuild_unmarshal, spec_n, x_, mat) for _, x_ in inputs_]
            for (shape_, x_), lib, ref in zip(inputs_, libs, refs_):
                col.ev()
                col.label("equal-keys-of-different-classes")
                if nontriv:
                    col.nt(p.key + path + "eqkeys" + repr(x_)[:80])
                if not same_outcome(lib, ref):
                    col.violation("unmarshal-equals-rebuild", dict(case_base, direction="unmarshal", equal_keys=repr(keys_)),
                                  f"node {path} ({mat.expr(spec_n, None)}) given {shape_} with the keys {x_ if shape_ == 'mapping' else keys_!r:.120}: "
                                  f"library {describe(lib)}; rebuilt from member routines {describe(ref)}",
                                  bucket=f"equal-keys|{shape_}|{lib[0]}/{ref[0]}")
                    break
    # ---- exception parity: corrupt exactly one direct member -------------------------------------
    if isinstance(wire, (list, dict)) and wire:
        junk_src = p.draw(st.sampled_from(JUNK_MEMBER))
        junk = inputs.eval_src(junk_src)
        if isinstance(wire, list):
            i = p.draw(st.integers(0, len(wire) - 1))
            bad = list(wire)
            bad[i] = junk
            where = str(i)
        else:
            kk = p.draw(st.sampled_from(list(wire.keys())))
            bad = dict(wire)
            bad[kk] = junk
            where = repr(kk)
        col.ev()
        col.label("corrupted-member")
        tl.clear_all()
        lib = outcome(tl.unmarshal, T_n, bad)
        tl.clear_all()
        ref = outcome(rebuild_unmarshal, spec_n, bad, mat)
        if nontriv:
            col.nt(p.key + path + "corrupt" + where + junk_src)
        if not same_outcome(lib, ref):
            col.violation("exception-parity", dict(case_base, corrupt_at=where, junk=junk_src),
                          f"node {path} ({mat.expr(spec_n, None)}) with member {where} := {junk_src}: library {describe(lib)}; rebuild {describe(ref)}",
                          bucket=f"{spec_n['k']}|{lib[0]}/{ref[0]}|{tl.exc_name(lib[1]) if lib[0] == 'exc' else ''}|{tl.exc_name(ref[1]) if ref[0] == 'exc' else ''}"[:110])
    # ---- source shapes for structured nodes -------------------------------------------------------
    if spec_n["k"] == "class" and isinstance(wire, dict) and wire:
        shapes = {"pairs": [[a, b] for a, b in wire.items()]}
        # the same pairs in other iterable carriers; one-shot iterators are made afresh for the one call
        shapes["pairs-tuple"] = tuple((a, b) for a, b in wire.items())
        shapes["pairs-iter"] = lambda: iter([(a, b) for a, b in wire.items()])
        shapes["pairs-generator"] = lambda: ((a, b) for a, b in wire.items())
        shapes["pairs-zip"] = lambda: zip(list(wire.keys()), list(wire.values()))
        shapes["items-view"] = wire.items()
        # mappings that are no dict: a read-only proxy, a UserDict, a hand-written Mapping
        import collections as _c
        import types as _t
        shapes["mappingproxy"] = _t.MappingProxyType(dict(wire))
        shapes["userdict"] = _c.UserDict(wire)
        shapes["custom-mapping"] = _PlainMapping(wire)
        if inputs.json_keys_ok(wire):
            try:
                shapes["json"] = json.dumps(wire)
            except Exception:
                pass
        try:
            # (attributes with a leading underscore are not fields of an object, so such keys cannot travel this way)
            if not any(str(n).startswith("_") for n in wire):
                Src = dataclasses.make_dataclass("OtherSource", [(n, typing.Any) for n in wire])
                shapes["other-structured"] = Src(**wire)
        except Exception:
            pass
        if not spec_n["flavour"].startswith("typeddict"):
            # an instance of the class itself whose members still hold their wire values (constructors do not validate)
            try:
                shapes["same-class-instance"] = T_n(**wire)
            except Exception:
                pass
        tl.clear_all()
        base = outcome(tl.unmarshal, T_n, wire)
        for name, x in shapes.items():
            col.ev()
            col.label(f"shape:{name}")
            col.nt(p.key + path + "shape" + name)
            o = outcome(tl.unmarshal, T_n, x() if isinstance(x, types.LambdaType) else x)
            if not same_outcome(o, base):
                col.violation("source-shapes-agree", dict(case_base, shape=name),
                              f"node {path} ({mat.expr(spec_n, None)}): mapping {describe(base)}; {name} {describe(o)}",
                              bucket=f"{name}|{o[0]}/{base[0]}")


def per_program(p):
    col = p.col
    feats = features(p.spec, p.mat)
    for f in feats:
        col.label("feature:" + f)
    try:
        vs = U.values(p.spec, p.mat, max_elems=2, json64=True)
    except U._Exhausted:
        return
    sampled = False
    for _ in range(4):
        v = p.draw(vs)
        try:
            wire = U.plain_wire(p.spec, v, p.mat)
        except Exception:
            continue
        nodes = composite_nodes(p.spec, wire, v, p.mat)
        for node in nodes[:12]:
            check_node(p, node, col, feats)
        # the composite after a conversion of this very input failed on one member and was handled (member put back in place)
        if isinstance(wire, (list, dict)) and wire:
            import copy as _copy
            pick = p.draw(st.integers(0, 10 ** 6))
            w2 = _copy.deepcopy(wire)
            tl.clear_all()
            r = retry.retry_after_failure(w2, lambda o: tl.call(tl.unmarshal, p.T, o), pick)
            if r is not None:
                col.ev()
                failed, want, got = r
                col.label(f"retry:first-call-{'failed' if failed else 'passed'}")
                if got != want:
                    col.violation("unmarshal-equals-rebuild", {"spec": p.spec, "root": p.mat.root_expr, "node_path": "$", "value": U.to_src(v, p.mat), "retry": pick},
                                  f"root ({p.mat.root_expr}): a conversion failed on one invalid member, the member was put back in place, the same call then "
                                  f"{'raised ' + got[1] if got[0] == 'exc' else 'returned something else'} (the member routines convert every member)",
                                  bucket=f"retry|{got[0]}")
        if nodes and feats and not sampled and len(p.mat.source()) < 1200:
            col.sample({"program": p.mat.source(), "features": sorted(feats), "nodes": [n[3] for n in nodes[:8]]})
            sampled = True


def plan(tier, seed):
    n = 60 if tier == "quick" else 1200
    depth = 4 if tier == "quick" else 5
    shards = [{"seed": seed * 1000 + k, "n": n, "depth": depth} for k in range(16)]
    shards += [{"seed": seed * 1000 + 70 + k, "n": n, "depth": 3, "repeated": True} for k in range(2)]
    return shards


def run_shard(shard, col):
    progs.drive_programs(col, seed=shard["seed"], n=shard["n"],
                         spec_strategy=U.repeated_generic_specs() if shard.get("repeated") else U.specs(max_depth=shard["depth"], mods=3, adversarial=True),
                         per_program=per_program)


def replay(clause, case, col):
    def per_case(p):
        v = p.mat.eval(case["value"])
        if case.get("retry") is not None:
            import copy as _copy
            w2 = _copy.deepcopy(U.plain_wire(p.spec, v, p.mat))
            r = retry.retry_after_failure(w2, lambda o: tl.call(tl.unmarshal, p.T, o), case["retry"])
            col.ev()
            if r is not None and r[2] != r[1]:
                col.violation("unmarshal-equals-rebuild", case, f"after a handled failure on this input: {r[2][0]}", bucket=f"retry|{r[2][0]}")
            return
        # re-locate the node by path on a re-derived wire of the *root* value is not possible (the stored value is the
        # node's value): check the node directly
        spec_n = _find(p.spec, case["node_path"], p.mat)
        wire = U.plain_wire(spec_n, v, p.mat)
        feats = features(p.spec, p.mat)

        class _P:
            pass
        check_node(_ReplayProg(p), (spec_n, wire, v, case["node_path"], 1), col, feats)

    progs.replay_program(case, col, per_case)


class _ReplayProg:
    def __init__(self, p):
        self.__dict__.update(p.__dict__)
        self._p = p
        self.key = p.key

    def draw(self, strategy):
        return strategy.example() if hasattr(strategy, "example") else None


def _find(spec, path, mat):
    """spec of the node at `path` ($, .field, [index], ['key'])"""
    import re
    s = spec
    for tok in re.findall(r"\.\w+|\[[^\]]*\]", path):
        s = U.strip(s)
        while s["k"] in ("optional", "ref"):
            s = mat.resolve(s) if s["k"] == "ref" else U.strip(s["a"][0])
        if tok.startswith("."):
            s = next(f["t"] for f in s["fields"] if f["n"] == tok[1:])
        elif s["k"] == "tuple":
            s = s["a"][int(tok[1:-1])]
        elif s["k"] == "dict":
            s = s["a"][1]
        else:
            s = s["a"][0]
    s = U.strip(s)
    while s["k"] in ("optional", "ref"):
        s = mat.resolve(s) if s["k"] == "ref" else U.strip(s["a"][0])
    return s


def cg_plan(seed):
    """coverage-guided shards of the thorough tier (harness/cg.py): same strategies and check functions, choices from libFuzzer"""
    return [{"seed": seed * 1000 + 900 + k, "n": 0, "depth": 4, "cg": {"runs": 4000}} for k in range(4)]
