"""C14 - text-like inputs are interchangeable.

(1) unmarshal(T, c(s)) for the five carriers str / bytes / bytearray / memoryview(bytes) /
    memoryview(bytearray): equal snapshots, or all raise.
(2) collection / mapping / structured T, m = harness-built wire form of a valid value:
    unmarshal(T, m) == unmarshal(T, json.dumps(m)) [str-keyed m only] == unmarshal(T, repr(m)).
(3) serdes.load / strload / decode directly: strict JSON text j -> what stdlib json.loads(j) returns
    (type-strict); text for which both json.loads and ast.literal_eval fail -> the same text as an
    exact str, no exception; non-text input -> the identical object.
"""

from __future__ import annotations

import ast
import json

from harness import core, inputs, progs, tl
from harness import universe as U
from harness.core import st
from harness.oracles import diff_bucket, exc_bucket, snapshot

ID = "C14"
RULE = ("(1) programs of U x 8 strings x 6 carriers (memoryview also as a window into a larger buffer); (2) collection/mapping/structured programs x 4 wire values x "
        "{value, JSON text, repr text}; (3) direct load/strload/decode on generated strict JSON, Python-literal text "
        "and plain text in 6 carriers; non-trivial = carrier is bytearray / writable memoryview, or the text is a "
        "look-alike / malformed / non-ASCII / long repetitive string, or (2) JSON/repr text of a nested wire value; "
        "distinct by (spec, text, carrier) resp. (text, carrier)")
ASSUMPTIONS = ["non-strict JSON (NaN, Infinity, lone surrogates, ints beyond 64 bit, nesting > 100) is not compared: orjson and stdlib json legitimately differ",
               "the JSON rendering in (2) is used only for str-keyed wire values (json.dumps itself rewrites other keys)"]
TECHNIQUE = "property-based testing: metamorphic relation across five text carriers and three renderings; differential oracle against stdlib json / ast.literal_eval for serdes.load"
LEVEL_TEXT = ("Exploration: every generated string is presented in all six carriers and the outcomes compared; wire values "
              "are presented decoded, as JSON text and as Python-literal text; serdes.load is compared with stdlib json on "
              "strict JSON and required to be the identity on text that is neither JSON nor a literal.")
LEVEL_NOTE = "trusts stdlib json.loads and ast.literal_eval as the definition of 'JSON text' and 'Python literal'"

serdes = tl.serdes

LONG = ["-" * 100001 + "1", "[" * 5000, "not " * 3000, "(" * 3000, "{" * 2000 + "}" * 2000, "[" * 150 + "]" * 150,
        "1" * 5000, "-" * 300 + "1", "not " * 50 + "x", "~" * 20000 + "1", "+" * 20000 + "1"]
TEXTS = U.LOOKALIKE_STRINGS + ["[1,", "{'a': 1", '{"a": }', "nul", "tru", "1e", "--1", "1..2", "0x", "[1 2]", "'unterminated",
                               '"unterminated', "\x00\x01", "\x7f", "a\nb", "\r\n", " 1 ", "\t[1]\n", "1;2", "__import__('os')",
                               "lambda: 1", "x = 1", "1 if 1 else 2", "[x for x in y]", "b'ab'", "f'{1}'", "...", "None,", "é1", "１２"]


SIZED = ["1234567890123456", "0x00000000000001", "not-a-uuid-text!", "\u00e9" * 8, "0" * 32, "1" * 16, " " * 16, "00000000-0000-0000-0000-000000000001",
         "{00000000-0000-0000-0000-000000000001}", "urn:uuid:00000000-0000-0000-0000-000000000001", "0000000000000001", "abcdefghijklmnop"]
# characters str.strip()/str.split() treat as whitespace but bytes.strip() and the JSON grammar do not
EXOTIC_WS = ["\x1c", "\x1d", "\x1e", "\x1f", "\x85", "\xa0", "\u2000", "\u2003", "\u2028", "\u2029", "\u3000", "\x0b", "\x0c", "\ufeff", "\u200b"]
PARSABLE = ["1", "[1,2]", '{"a": 1}', "true", "null", "(1, 2)", "'x'", "1.5", "[]", "None", "True", '"s"']


def exotic_padded():
    return st.builds(lambda a, body, b, where: (a + body if where == 0 else body + b if where == 1 else a + body + b),
                     st.sampled_from(EXOTIC_WS), st.sampled_from(PARSABLE), st.sampled_from(EXOTIC_WS), st.integers(0, 2))


def outcome(f, *a):
    k, r = tl.call(f, *a)
    return ("exc", tl.exc_name(r)) if k == "exc" else ("ok", snapshot(r))


def member_texts(spec):
    """every spelling of the Literal values / Enum member values that occur in `spec`: the texts for which
    'the text itself' and 'what the text decodes to' may both be members"""
    out = []

    def walk(x):
        if isinstance(x, dict):
            vals = x.get("values", []) if x.get("k") == "literal" else [m[1] for m in x.get("members", [])] if x.get("k") == "enum" else []
            for v in vals:
                if isinstance(v, (bytes, bytearray)):
                    continue
                out.append(v if isinstance(v, str) else str(v))
                out.append(repr(v))
                try:
                    out.append(json.dumps(v))
                except Exception:
                    pass
            for y in x.values():
                walk(y)
        elif isinstance(x, list):
            for y in x:
                walk(y)

    walk(spec)
    return sorted(set(out))


def strings_for(p, vs):
    # (a container or structured target walks a text that is no document element by element: the 100 000-character texts
    # cost seconds per call there and show nothing the 5 000-character ones do not)
    leafy = U.strip(p.spec)["k"] in ("scalar", "enum", "literal", "none", "optional", "union")
    alts = [st.sampled_from(TEXTS), st.sampled_from(LONG if leafy else [x for x in LONG if len(x) <= 6000]), exotic_padded(),
            st.text(alphabet=st.characters(exclude_categories=["Cs"]), max_size=12)]
    mt = member_texts(p.spec)
    if mt:
        alts += [st.sampled_from(mt)] * 2
    if any(x.get("t") == "UUID" for x in U.walk(p.spec) if x["k"] == "scalar"):
        # texts whose byte length coincides with a packed form of the target (a UUID is 16 bytes, 32 hex digits)
        alts += [st.sampled_from(SIZED)] * 2
    if vs is not None:
        def render(v, form):
            try:
                m = U.plain_wire(p.spec, v, p.mat)
            except Exception:
                return "null"
            if isinstance(m, str):
                return m
            if form and inputs.json_keys_ok(m):
                try:
                    return json.dumps(m)
                except Exception:
                    return repr(m)
            return repr(m)
        alts += [st.builds(render, vs, st.booleans())] * 3
    return st.one_of(*alts)


def lone_call(p, s, c, col):
    """one text in ONE carrier only, between two rounds: whatever the routines remember about an input class, they now
    remember it for this carrier alone"""
    col.label("history:lone-carrier-call")
    outcome(tl.unmarshal, p.T, inputs.carry(s, c))
    p.hist.append([_gen(s), c])


def check_carriers(p, s, col):
    mat = p.mat
    outs = {}
    if not hasattr(p, "hist"):
        p.hist = []
    staggered = any(len(h) == 2 for h in p.hist)
    for c in inputs.CARRIERS:
        col.ev()
        outs[c] = outcome(tl.unmarshal, p.T, inputs.carry(s, c))
    if staggered:
        col.label("carriers:after-lone-calls")
    p.hist.append([_gen(s)])
    special = (not s.isascii()) or s in TEXTS or len(s) > 200 or any(ch in s for ch in "\x1c\x1d\x1e\x1f\x0b\x0c")
    for c in ("bytearray", "memoryview(bytearray)"):
        col.nt(p.key + s[:200] + str(len(s)) + c)
    if special:
        for c in ("str", "bytes", "memoryview(bytes)"):
            col.nt(p.key + s[:200] + str(len(s)) + c)
    col.label("carriers:all-raise" if all(o[0] == "exc" for o in outs.values()) else "carriers:some-return")
    if len(s) < 60:
        col.sample({"T": mat.root_expr, "s": s, "outcomes": {c: o[0] for c, o in outs.items()}})
    ref = outs["str"]
    for c, o in outs.items():
        same = (o == ref) if ref[0] == "ok" else (o[0] == "exc")
        if not same:
            col.violation("carriers-agree", p.case(text=s if len(s) < 400 else None, text_gen=_gen(s), carrier=c,
                                                   **({"history": list(p.hist)} if staggered else {})),
                          f"unmarshal({mat.root_expr}, {s[:60]!r}...): str -> {_d(ref)}, {c} -> {_d(o)}",
                          bucket=f"{c}|{o[1] if o[0] == 'exc' else 'value'}|{ref[1] if ref[0] == 'exc' else 'value'}"[:100])


BARE = ["list", "tuple", "set", "frozenset", "collections.deque", "typing.List", "typing.Tuple", "typing.Set", "typing.Sequence",
        "typing.Collection", "typing.MutableSequence", "dict", "typing.Dict", "typing.Mapping"]
BARE_TEXTS = ["1", "0", "-7", "1.5", "null", "true", "false", "[1, 2]", "(1, 2)", "[]", "{}", "abc", "", " ", '"x"', "'x'", '{"a": 1}',
              "{'a': 1}", "[1, [2, 3]]", "1,2", "\ufeff[1]", "[1] ", "None", "True", "é", "[\"é\"]", "12345678901234567890123"]


def check_bare(col, only=None):
    """unparameterised collections and mappings (not in U as *members*, but annotations a caller may pass): the carriers of one
    text agree here too - the routine casts what the text decodes to, and what it does when that fails must not depend on the
    carrier either"""
    import collections
    import typing
    ns_ = {"collections": collections, "typing": typing}
    for expr in BARE:
        T = eval(expr, ns_)  # noqa: S307
        for s in BARE_TEXTS:
            if only and (expr, s) != only:
                continue
            tl.clear_all()
            outs = {}
            for c in inputs.CARRIERS:
                col.ev()
                outs[c] = outcome(tl.unmarshal, T, inputs.carry(s, c))
                col.nt(f"bare|{expr}|{s}|{c}")
            col.label("bare-collection-target")
            ref = outs["str"]
            for c, o in outs.items():
                same = (o == ref) if ref[0] == "ok" else (o[0] == "exc")
                if not same:
                    col.violation("carriers-agree", {"bare": expr, "text": s, "carrier": c},
                                  f"unmarshal({expr}, {s!r}): str -> {_d(ref)}, {c} -> {_d(o)}",
                                  bucket=f"bare|{c}|{o[1] if o[0] == 'exc' else 'value'}|{ref[1] if ref[0] == 'exc' else 'value'}"[:100])


def _gen(s):
    """compact generator expression for long repetitive strings"""
    return repr(s) if len(s) < 400 else f"LONG[{LONG.index(s)}]" if s in LONG else repr(s)


def _d(o):
    return f"raises {o[1]}" if o[0] == "exc" else "returns " + repr(o[1])[:80]


def check_renderings(p, v, col):
    mat = p.mat
    try:
        m = U.plain_wire(p.spec, v, mat)
    except Exception:
        return
    if not isinstance(m, (list, dict)):
        return
    col.ev(3)
    col.label("clause:renderings")
    col.nt(p.key + repr(m))
    base = outcome(tl.unmarshal, p.T, m)
    forms = {"repr": repr(m)}
    if inputs.json_keys_ok(m):
        try:
            forms["json"] = json.dumps(m)
        except Exception:
            pass
    for name, text in forms.items():
        o = outcome(tl.unmarshal, p.T, text)
        if o != base:
            col.violation("text-equals-decoded", p.case(wire=repr(m), form=name),
                          f"unmarshal({mat.root_expr}, m) {_d(base)} but via {name} text {text[:80]!r} {_d(o)}",
                          bucket=f"{name}|{o[1] if o[0]=='exc' else 'value'}"[:80])


# ---- (3) direct -------------------------------------------------------------------------------

json_values = st.recursive(
    st.one_of(st.none(), st.booleans(), st.integers(-2 ** 63, 2 ** 63 - 1),
              st.floats(allow_nan=False, allow_infinity=False), st.text(alphabet=st.characters(exclude_categories=["Cs"]), max_size=10),
              st.sampled_from(U.LOOKALIKE_STRINGS)),
    lambda c: st.one_of(st.lists(c, max_size=4), st.dictionaries(st.text(max_size=5, alphabet=st.characters(exclude_categories=["Cs"])), c, max_size=4)),
    max_leaves=10)


@st.composite
def direct_case(draw):
    kind = draw(st.sampled_from(["json", "json", "literal", "plain", "plain", "nontext"]))
    if kind == "json":
        v = draw(json_values)
        style = draw(st.sampled_from(["compact", "default", "indent", "ascii-off", "spaces"]))
        text = {"compact": lambda: json.dumps(v, separators=(",", ":")), "default": lambda: json.dumps(v),
                "indent": lambda: json.dumps(v, indent=2), "ascii-off": lambda: json.dumps(v, ensure_ascii=False),
                "spaces": lambda: "  " + json.dumps(v) + "\n"}[style]()
        return kind, text, draw(st.sampled_from(inputs.CARRIERS))
    if kind == "literal":
        v = draw(st.one_of(st.tuples(st.integers(), st.text(max_size=4)), st.sets(st.integers(0, 9), min_size=1, max_size=3),
                           st.dictionaries(st.integers(0, 5), st.booleans(), max_size=3), st.just(b"ab"), st.just((1,)),
                           st.lists(st.one_of(st.none(), st.booleans(), st.integers(), st.text(max_size=3)), max_size=4)))
        return kind, repr(v), draw(st.sampled_from(inputs.CARRIERS))
    if kind == "plain":
        return kind, draw(st.one_of(st.sampled_from(TEXTS + LONG), exotic_padded(), exotic_padded(),
                                    st.text(alphabet=st.characters(exclude_categories=["Cs"]), max_size=15))), \
            draw(st.sampled_from(inputs.CARRIERS))
    return kind, draw(st.sampled_from(["1", "None", "[1, 2]", "{'a': 1}", "1.5", "object()", "(1, 2)", "{1}", "True"])), "obj"


def _strict_json(text):
    """value if `text` is JSON that orjson and stdlib must agree on, else raises."""
    v = json.loads(text)

    def ok(x, depth=0):
        if depth > 90:
            return False
        if isinstance(x, bool) or x is None or isinstance(x, str):
            return "\ud800" <= "" or not isinstance(x, str) or all(not (0xD800 <= ord(ch) <= 0xDFFF) for ch in x)
        if isinstance(x, int):
            return -2 ** 63 <= x <= 2 ** 63 - 1
        if isinstance(x, float):
            return x == x and abs(x) != float("inf")
        if isinstance(x, list):
            return all(ok(i, depth + 1) for i in x)
        if isinstance(x, dict):
            return all(ok(i, depth + 1) for i in x.values()) and all(ok(i) for i in x)
        return False

    if not ok(v):
        raise ValueError("outside the strict subset")
    return v


def _scribble(x, depth=0):
    """edit every container of a decoded document in place"""
    if depth > 50:
        return
    if isinstance(x, list):
        for y in x:
            _scribble(y, depth + 1)
        x.append("<edited>")
    elif isinstance(x, dict):
        for y in list(x.values()):
            _scribble(y, depth + 1)
        x["<edited>"] = 1


def check_direct(kind, text, carrier, col):
    tl.clear_all()
    case = {"kind": kind, "text": text if len(text) < 400 else None, "text_gen": _gen(text), "carrier": carrier}
    if kind == "nontext":
        obj = eval(text)  # noqa: S307
        col.ev()
        col.label("direct:nontext")
        k, r = tl.call(serdes.load, obj)
        if k == "exc" or r is not obj:
            col.violation("load-nontext-identity", case, f"load({text}) -> {r!r}")
        k, r = tl.call(serdes.decode, obj)
        if k == "exc" or r is not obj:
            col.violation("decode-nontext-identity", case, f"decode({text}) -> {r!r}")
        return
    x = inputs.carry(text, carrier)
    special = carrier in ("bytearray", "memoryview(bytearray)") or (not text.isascii()) or text in TEXTS or len(text) > 200
    if special:
        col.nt(text[:200] + str(len(text)) + carrier)
        if len(text) < 60:
            col.sample({"text": text, "carrier": carrier, "kind": kind})
    # decode: bytes-like -> exactly the text
    col.ev()
    k, r = tl.call(serdes.decode, x)
    if k == "exc" or type(r) is not str or r != text:
        col.violation("decode-is-text", case, f"decode({carrier} of {text[:40]!r}) -> {r!r:.80}", bucket=carrier)
    # reference classification
    try:
        want = ("json", _strict_json(text))
    except RecursionError:
        want = ("skip", None)
    except Exception:
        try:
            json.loads(text)
            want = ("skip", None)  # JSON for stdlib, but outside the strict subset
        except RecursionError:
            want = ("skip", None)
        except Exception:
            try:
                ast.literal_eval(text)
                want = ("literal", None)
            except BaseException:  # noqa: BLE001 - any failure means "not a literal"
                want = ("plain", text)
    col.label("direct:" + want[0])
    for fname in ("load", "strload"):
        col.ev()
        f = getattr(serdes, fname)
        k, r = tl.call(f, inputs.carry(text, carrier))
        if want[0] == "json":
            if k == "exc" or snapshot(r) != snapshot(want[1]):
                col.violation(f"{fname}-json", case, f"{fname}({carrier} of {text[:60]!r}) -> {(tl.exc_name(r) if k == 'exc' else repr(r))[:80]}, json.loads -> {want[1]!r:.80}",
                              bucket=f"{carrier}|{tl.exc_name(r) if k == 'exc' else diff_bucket(r, want[1])}"[:90])
            elif isinstance(r, (list, dict)):
                # what load hands out is the caller's: editing it (nested members included) must not change what the
                # same text decodes to afterwards
                _scribble(r)
                k2, r2 = tl.call(f, inputs.carry(text, carrier))
                if k2 == "exc" or snapshot(r2) != snapshot(want[1]):
                    col.violation(f"{fname}-json", dict(case, after="the previous result was edited in place"),
                                  f"{fname}({carrier} of {text[:60]!r}) after editing the previous result -> {(tl.exc_name(r2) if k2 == 'exc' else repr(r2))[:80]}, json.loads -> {want[1]!r:.80}",
                                  bucket=f"after-edit|{carrier}")
        elif want[0] == "plain":
            if k == "exc" or type(r) is not str or r != text:
                col.violation(f"{fname}-plain-text-unchanged", case,
                              f"{fname}({carrier} of {text[:40]!r}) -> {(tl.exc_name(r) + ': ' + str(r)[:40]) if k == 'exc' else repr(r)[:80]}",
                              bucket=f"{carrier}|{tl.exc_name(r) if k == 'exc' else type(r).__name__}"[:90])
        elif want[0] == "literal":
            if k == "exc":
                col.violation(f"{fname}-never-raises", case, f"{fname}({carrier} of {text[:40]!r}) raised {tl.exc_name(r)}",
                              bucket=f"{carrier}|{tl.exc_name(r)}"[:90])


# ---- runner interface ----------------------------------------------------------------------------

def per_program(p):
    if p.data is not None and p.draw(st.integers(0, 2)) == 0:
        p.warm("marshaller")   # the routines of the other direction built first
    try:
        # 64-bit ints: the configured JSON decoder (orjson) reads larger ints as floats, so the
        # text of such a wire value is legitimately not equivalent to the value (DESIGN C14)
        vs = U.values(p.spec, p.mat, max_elems=3, json64=True)
    except U._Exhausted:
        vs = None
    strs = strings_for(p, vs)
    p.hist = []
    for _ in range(8):
        if p.hist and p.draw(st.integers(0, 2)) == 0:
            lone_call(p, p.draw(strs), p.draw(st.sampled_from(inputs.CARRIERS)), p.col)
        check_carriers(p, p.draw(strs), p.col)
    if vs is not None and U.strip(p.spec)["k"] in ("list", "set", "frozenset", "deque", "vtuple", "tuple", "dict", "class"):
        for _ in range(4):
            check_renderings(p, p.draw(vs), p.col)


def plan(tier, seed):
    n = 60 if tier == "quick" else 1200
    depth = 3 if tier == "quick" else 5
    shards = [{"kind": "progs", "seed": seed * 1000 + k, "n": n, "depth": depth} for k in range(12)]
    shards += [{"kind": "direct", "seed": seed * 1000 + 50 + k, "n": 2500 if tier == "quick" else 60000} for k in range(4)]
    # shallow annotations (Literal / Enum / scalar unions at or just below the root): many more programs per second,
    # and the place where a text and the value it decodes to can both be acceptable
    shards += [{"kind": "progs", "seed": seed * 1000 + 80 + k, "n": 400 if tier == "quick" else 8000, "depth": 1} for k in range(4)]
    # unions of leaf types: one input class, several members that may take it
    shards += [{"kind": "progs", "seed": seed * 1000 + 90 + k, "n": 150 if tier == "quick" else 3000, "depth": 1, "unions": True} for k in range(4)]
    shards.append({"kind": "bare"})
    return shards


def run_shard(shard, col):
    if shard["kind"] == "bare":
        check_bare(col)
        return
    if shard["kind"] == "direct":
        core.drive(direct_case(), lambda c: check_direct(*c, col), n=shard["n"], seed=shard["seed"], col=col)
        return
    progs.drive_programs(col, seed=shard["seed"], n=shard["n"],
                         spec_strategy=U.scalar_union_specs() if shard.get("unions") else U.root_specs(max_depth=shard["depth"], mods=2),
                         per_program=per_program)


def _text(case):
    if case.get("text") is not None:
        return case["text"]
    return eval(case["text_gen"], {"LONG": LONG})  # noqa: S307


def replay(clause, case, col):
    if "bare" in case:
        check_bare(col, only=(case["bare"], case["text"]))
    elif "kind" in case:
        check_direct(case["kind"], _text(case), case["carrier"], col)
    elif "wire" in case:
        def f(p):
            # re-derive a value is not possible from the wire alone: compare renderings of the recorded wire
            m = eval(case["wire"])  # noqa: S307
            base = outcome(tl.unmarshal, p.T, m)
            text = repr(m) if case["form"] == "repr" else json.dumps(m)
            o = outcome(tl.unmarshal, p.T, text)
            col.ev()
            if o != base:
                col.violation("text-equals-decoded", case, f"decoded {_d(base)} vs {case['form']} text {_d(o)}", bucket=case["form"])
        progs.replay_program(case, col, f)
    else:
        def g(p):
            p.hist = []
            for h in case.get("history", ()):
                t = eval(h[0], {"LONG": LONG})  # noqa: S307
                if len(h) == 2:
                    lone_call(p, t, h[1], core.Collector(ID))
                else:
                    check_carriers(p, t, core.Collector(ID))
            check_carriers(p, _text(case), col)
        progs.replay_program(case, col, g)


def cg_plan(seed):
    """coverage-guided shards of the thorough tier (harness/cg.py): same strategies and check functions, choices from libFuzzer"""
    return ([{"kind": "direct", "seed": seed * 1000 + 900 + k, "n": 0, "cg": {"runs": 40000}} for k in range(2)]
            + [{"kind": "progs", "seed": seed * 1000 + 910 + k, "n": 0, "depth": 2, "cg": {"runs": 600}} for k in range(2)])
