"""Predicates for known findings (registered into harness.findings.PREDICATES)."""

from harness.findings import predicate  # noqa: F401
