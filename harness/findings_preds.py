"""Predicates for known findings (registered into harness.findings.PREDICATES)."""

from harness.findings import predicate  # noqa: F401


@predicate("c01_union_fixpoint_ambiguous")
def c01_union_fixpoint_ambiguous(clause, case, detail):
    """Root cause: first-acceptor union semantics. When an *earlier* union member captures the value
    (its marshaller accepts v, or its unmarshaller accepts the own member's wire form) and reads it
    non-canonically, marshal(unmarshal(T, m)) != m. The harness decides 'captured' independently
    with member routines built on their own (case['ambiguous'])."""
    # ... and it is a matter of (type, value) alone: the same calls give the same once every cache was cleared (the check
    # records case['diag'] = 'history-dependent' otherwise, which is a different violation)
    return (clause == "union-fixpoint" and case.get("ambiguous") in ("marshal-captured", "unmarshal-captured")
            and case.get("diag") != "history-dependent")


@predicate("duration_float_precision")
def duration_float_precision(clause, case, detail):
    """Root cause: pendulum.parse builds a Duration through float seconds. (a) a round trip differs
    only at timedelta leaves >= 2**32 s by float64 rounding (diagnosed by the harness:
    case['diag']); (b) text within float rounding of timedelta.max makes pendulum overflow."""
    if case.get("diag") == "duration-float-precision" and clause in ("round-trip", "text-round-trip", "wire-round-trip", "decode-encode"):
        return True
    if "OverflowError" in detail and "days=1000000000" in detail and "999999999" in (case.get("value", "") + case.get("text", "")):
        return True
    # (c) the same overflow swallowed by an enclosing union/optional: the value holds a timedelta
    #     within float rounding (7.8 ms) of timedelta.max
    import re
    for m in re.finditer(r"timedelta\(days=999999999, seconds=86399, microseconds=(\d+)\)", case.get("value", "")):
        if int(m.group(1)) >= 992187:
            return True
    return False


@predicate("c12_served_by_equal_type")
def c12_served_by_equal_type(clause, case, detail):
    """Root cause: every routine/graph cache is a functools cache keyed by ==/hash, and
    typing.Union[int, str] == typing.Union[str, int] (same hash). Once a routine for one member order
    exists, the other order is served by it. The harness diagnoses this independently: the hot outcome
    equals the *cold* outcome of the equal-but-distinct partner type that was used earlier in the
    history since the last cache clear (case['diag'])."""
    d = case.get("diag", "")
    return clause == "same-as-cold-process" and d.startswith("served-by-equal-type:") and "'Item'@" not in d


@predicate("c12_bare_string_reference_cached_by_name")
def c12_bare_string_reference_cached_by_name(clause, case, detail):
    """Root cause: a bare string reference ('Item') is resolved through the caller's frames once and
    then memoised by the string alone (refs._resolve_module_name, graph.static_order, marshaller,
    unmarshaller are all keyed by the str). The same name issued later from another module is served by
    the first module's class. Diagnosed like c12_served_by_equal_type, partner = the other module."""
    d = case.get("diag", "")
    return clause == "same-as-cold-process" and d.startswith("served-by-equal-type:'Item'@")


@predicate("c02_string_alias_of_bytes")
def c02_string_alias_of_bytes(clause, case, detail):
    """Root cause: codec() / typelib.encode / typelib.decode decide "bytes are their own wire format" from the annotation as
    written (after unwrap); a string-valued alias of a bytes-like class (`TypeAliasType("P", "bytes")`) is still a reference at
    that point, so the JSON encoder / decoder is applied to the payload. marshal / unmarshal resolve the reference and work."""
    return clause in ("bytes-verbatim-encode", "bytes-verbatim-decode") and case.get("wrap") == "stralias"


@predicate("c06_nonfinite_text_captured_by_float_member")
def c06_nonfinite_text_captured_by_float_member(clause, case, detail):
    """Root cause: first-acceptor union semantics on the marshal side - the float marshaller accepts text, so in Union[float, str]
    the str value "inf" / "nan" / "Infinity" is written as the float it spells: a non-finite float, which JSON cannot carry. The
    check establishes (case['diag']) that the value itself holds no non-finite float and does hold such a text."""
    return clause == "json-encodable" and case.get("diag") == "nonfinite-text-captured-by-float-member"
