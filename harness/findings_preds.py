"""Predicates for known findings (registered into harness.findings.PREDICATES)."""

from harness.findings import predicate  # noqa: F401


@predicate("c01_union_fixpoint_ambiguous")
def c01_union_fixpoint_ambiguous(clause, case, detail):
    """Root cause: first-acceptor union semantics. When an *earlier* union member captures the value
    (its marshaller accepts v, or its unmarshaller accepts the own member's wire form) and reads it
    non-canonically, marshal(unmarshal(T, m)) != m. The harness decides 'captured' independently
    with member routines built on their own (case['ambiguous'])."""
    return clause == "union-fixpoint" and case.get("ambiguous") in ("marshal-captured", "unmarshal-captured")


@predicate("duration_float_precision")
def duration_float_precision(clause, case, detail):
    """Root cause: pendulum.parse builds a Duration through float seconds. (a) a round trip differs
    only at timedelta leaves >= 2**32 s by float64 rounding (diagnosed by the harness:
    case['diag']); (b) text within float rounding of timedelta.max makes pendulum overflow."""
    if case.get("diag") == "duration-float-precision" and clause in ("round-trip", "text-round-trip", "wire-round-trip", "decode-encode"):
        return True
    if "OverflowError" in detail and "days=1000000000" in detail and "999999999" in (case.get("value", "") + case.get("text", "")):
        return True
    # (c) the same overflow swallowed by an enclosing union/optional: the value holds a timedelta
    #     within float rounding (7.8 ms) of timedelta.max
    import re
    for m in re.finditer(r"timedelta\(days=999999999, seconds=86399, microseconds=(\d+)\)", case.get("value", "")):
        if int(m.group(1)) >= 992187:
            return True
    return False
