#!/bin/bash
# setup_cmd: offline; makes sure hypothesis is importable in /venv and that typelib binds to /repo/src.
cd "$(dirname "$0")" || exit 2
PY=/venv/bin/python
if ! $PY -c 'import hypothesis' 2>/dev/null; then
  PIP_NO_INDEX=1 $PY -m pip install -q --no-index --find-links /opt/veriftools/wheels hypothesis || exit 2
fi
$PY - <<'PY'
import sys
sys.path.insert(0, ".")
from harness import tl, core
print("typelib from", tl.typelib.__file__, "caches", tl.n_caches())
PY
