from __future__ import annotations
import itertools, typing as t, decimal, datetime as dt, uuid, dataclasses, enum
from tl import *
def fresh(T, x):
    clear_all(); return um(T, x)
print(repr(fresh(t.Union[None, int, str], None)))
print(repr(fresh(t.Union[int, None, str], None)))
print(repr(fresh(t.Union[int, str, None], None)))
print(repr(fresh(t.Union[str, int, None], None)))
print(repr(fresh(t.Union[str, None, int], None)))
clear_all(); print(typelib.unmarshaller(t.Union[None, int, str]).stack)
clear_all(); print(typelib.unmarshaller(t.Union[int, None, str]).stack)
clear_all(); print(typelib.unmarshaller(t.Union[int, str, None]).stack)
print(repr(fresh(t.Union[str, int], 5)), repr(fresh(t.Union[int, str], "5")), repr(fresh(t.Union[str, int], "5")))
print(repr(fresh(t.Union[int, list[int]], "[5]")), repr(fresh(t.Union[list[int], int], 5)))
# what exceptions do members raise
for T, x in [(decimal.Decimal, "abc"), (uuid.UUID, "abc"), (dt.date, "abc"), (int, "abc"), (list[int], "abc"), (dict[str,int], 5), (dt.timedelta, "abc"), (float, "x"), (dt.datetime, [1]), (dt.date, {"a":1}), (uuid.UUID, [1]), (int, None), (t.Literal[1,2], 3)]:
    print(T, repr(x), '->', fresh(T, x))
# marshal union first acceptor
clear_all(); print(repr(ma(t.Union[str, int], 5)))
clear_all(); print(repr(ma(t.Union[int, str], "5")))
clear_all(); print(repr(ma(t.Union[int, str], "x")))
clear_all(); print(repr(ma(t.Union[None, int], None)), repr(ma(t.Union[int, None, str], None)))
