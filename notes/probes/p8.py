import typing as t, sys
sys.path.insert(0, __import__("os").path.dirname(__import__("os").path.abspath(__file__)))
from tl import *
from typelib.py import compat, refs, inspection
from typelib import graph
from modpkg import m1
def tryb(T, x):
    clear_all()
    return um(T, x)
for name in ["IntNT","IntAlias","IntStrAlias","ListIntStr","ListInt","NTofAlias","AliasOfNT","AliasOfStrAlias","PAlias","PStrAlias","PNT"]:
    T = getattr(m1, name)
    x = {"x": "1"} if name.startswith("P") else ('["1"]' if "List" in name else "1")
    print(name.ljust(18), repr(tryb(T, x)))
for W in [t.Final[int], t.ClassVar[int], t.Final[m1.IntStrAlias], t.Final[list[int]], "int", "m1.IntNT", "modpkg.m1.IntNT", refs.forwardref("IntNT", module="modpkg.m1"), t.ForwardRef("IntNT", module="modpkg.m1"), refs.forwardref("list[IntNT]", module="modpkg.m1"), "list[int]", "decimal.Decimal"]:
    print(repr(W).ljust(50), repr(tryb(W, '["1"]' if "list" in repr(W) else "1")))
for pos in [list, ]:
    pass
for T in [list[m1.IntNT], list[m1.IntAlias], list[m1.IntStrAlias], dict[str, m1.IntStrAlias], tuple[m1.IntStrAlias, m1.IntNT], t.Optional[m1.IntStrAlias], t.Union[m1.IntStrAlias, None], list[m1.ListIntStr], list[m1.PStrAlias], list[m1.PAlias], list[m1.PNT], dict[str, m1.PStrAlias], list[t.Final[int]] if False else list[int], tuple[m1.IntStrAlias, ...], list[m1.AliasOfStrAlias], t.Union[m1.IntStrAlias, str]]:
    x = [{"x":"1"}] if "P" in repr(T) else (["1"])
    if "dict" in repr(T): x = {"k": x[0]}
    if "Optional" in repr(T) or "Union" in repr(T): x = "1"
    if T == list[m1.ListIntStr]: x = [["1"]]
    print(repr(T).ljust(50), repr(tryb(T, x)))
print(tryb(m1.Holder, dict(a="1", b="2", c="3", d=["4"], e="5", f=["6"], g={"k":"7"}, h=["8","9"], i="10", j={"x":"11"}, k=[{"x":"12"}], l={"x":"13"}, m="14", n="15", o="16")))
clear_all()
import warnings
with warnings.catch_warnings(record=True) as w:
    warnings.simplefilter("always")
    typelib.unmarshaller(m1.Holder)
    for x in w: print("WARN", str(x.message)[:150])
print(ma(m1.Holder, m1.Holder(1,2,3,[4],5,[6],{"k":7},(8,9),10,m1.P(11),[m1.P(12)],m1.P(13),14,15,16)))
