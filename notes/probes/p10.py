import typing as t, sys, types, itertools, dataclasses, decimal, datetime as dt, copy
from tl import *
from typelib import serdes
counter = itertools.count()
def mkmod(src, name=None):
    name = name or f"synth_{next(counter)}"
    m = types.ModuleType(name); sys.modules[name] = m
    exec(compile(src, f"<{name}>", "exec"), m.__dict__)
    return m
A = mkmod("""
import dataclasses, typelib
@dataclasses.dataclass
class P:
    x: int
def call(v): return typelib.unmarshal("P", v)
def deep(v, n=5): return deep(v, n-1) if n else typelib.unmarshal("P", v)
""", "modA")
B = mkmod("""
import dataclasses, typelib
@dataclasses.dataclass
class P:
    y: str
def call(v): return typelib.unmarshal("P", v)
""", "modB")
clear_all()
print(A.call({"x": "1"}), A.deep({"x": "2"}))
try: print(B.call({"y": 5}))
except Exception as e: print("EXC", type(e).__name__, e)
clear_all()
try: print(B.call({"y": 5}))
except Exception as e: print("EXC", type(e).__name__, e)
try: print(A.call({"x": "1"}))
except Exception as e: print("EXC", type(e).__name__, e)

print("--- C12 cached list by reference")
clear_all()
r1 = typelib.unmarshal(list, "[1, 2]")
r1.append(99)
print(typelib.unmarshal(list, "[1, 2]"))
clear_all()
r = serdes.load('{"a": [1]}'); r["a"].append(5); print(serdes.load('{"a": [1]}'))
clear_all()
r1 = typelib.unmarshal(list[int], "[1, 2]"); r1.append(5); print(typelib.unmarshal(list[int], "[1, 2]"))
clear_all()
r1 = typelib.unmarshal(dict, '{"a": {"b": 1}}'); r1["a"]["b"] = 2; print(typelib.unmarshal(dict, '{"a": {"b": 1}}'))
clear_all()
r1 = typelib.unmarshal(t.Any, '{"a": {"b": 1}}'); print(repr(r1))
r1 = typelib.unmarshal(dict[str, dict], '{"a": {"b": 1}}'); r1["a"]["b"] = 2; print(typelib.unmarshal(dict[str, dict], '{"a": {"b": 1}}'))
print("--- isoformat offset of earlier equal instant")
clear_all()
d1 = dt.datetime(2020,1,1,12,0,tzinfo=dt.timezone.utc)
d2 = d1.astimezone(dt.timezone(dt.timedelta(hours=5)))
print(d1 == d2, hash(d1)==hash(d2))
print(serdes.isoformat(d1), serdes.isoformat(d2))
clear_all()
print(serdes.isoformat(d2), serdes.isoformat(d1))
t1 = dt.time(12,0,tzinfo=dt.timezone.utc); t2 = dt.time(17,0,tzinfo=dt.timezone(dt.timedelta(hours=5)))
print(t1==t2, hash(t1)==hash(t2)); clear_all(); print(serdes.isoformat(t1), serdes.isoformat(t2))
print("--- 1 / 1.0 / True")
clear_all()
print(repr(serdes.isoformat(dt.timedelta(seconds=1))), )
import pendulum
clear_all()
print(repr(serdes.dateparse("2020-01-01", dt.date)), repr(serdes.dateparse("2020-01-01", dt.datetime)))
clear_all()
print(repr(serdes.strload("1")), repr(serdes.strload(b"1")), repr(serdes.strload("1.0")), repr(serdes.strload("true")))
# Literal hash-equal
clear_all()
print(repr(um(t.Literal[1], True)), repr(um(t.Literal[True], 1)), repr(um(t.Literal[1], 1.0)))
print(t.Literal[1] == t.Literal[True], t.Literal[1,2]==t.Literal[2,1])
clear_all(); a = typelib.unmarshaller(t.Literal[1,2]); b = typelib.unmarshaller(t.Literal[2,1]); print(a is b)
clear_all(); a = typelib.unmarshaller(t.Literal[0]); b = typelib.unmarshaller(t.Literal[False]); print(a is b, a.values, b.values)
print("--- input mutation")
clear_all()
x = {"a": ["1", "2"]}; x0 = copy.deepcopy(x); typelib.unmarshal(dict[str, list[int]], x); print(x == x0)
print("--- marshal shares containers?")
v = {"a": [1,2]}; m = typelib.marshal(v, t=dict[str, list[int]]); print(m["a"] is v["a"], m is v)
v = {"a": [1,2]}; m = typelib.marshal(v, t=dict); print(m is v, m["a"] is v["a"])
v = [[1]]; m = typelib.marshal(v, t=list[list]); print(m[0] is v[0])
