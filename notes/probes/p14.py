import typing as t, dataclasses, collections, types, enum
from tl import *
from typelib import serdes
def it(x):
    try: return list(serdes.iteritems(x))
    except BaseException as e: return f"EXC {type(e).__name__}: {e}"
def iv(x):
    try: return list(serdes.itervalues(x))
    except BaseException as e: return f"EXC {type(e).__name__}: {e}"
class NT(t.NamedTuple):
    a: tuple
    b: int
class NT1(t.NamedTuple):
    a: str
@dataclasses.dataclass
class D:
    a: int
    _p: int = 0
    c: t.ClassVar[int] = 5
class Slots:
    __slots__ = ("a", "_b", "c")
    def __init__(self): self.a=1; self._b=2; self.c=3
class Vars:
    def __init__(self): self.a=1; self._b=2
class Hinted:
    a: int
    b: str
    def __init__(self): self.a = 1; self.b = "x"
class HintedMissing:
    a: int
    b: str
    def __init__(self): self.a = 1
class CM(collections.abc.Mapping):
    def __init__(self, d): self.d = d
    def __getitem__(self, k): return self.d[k]
    def __iter__(self): return iter(self.d)
    def __len__(self): return len(self.d)
def gen(xs):
    yield from xs
cases = {
 "dict": {"a": 1}, "odict": collections.OrderedDict(a=1), "mproxy": types.MappingProxyType({"a": 1}), "custom mapping": CM({"a": 1}),
 "NT 2-elem first": NT((1,2), 3), "NT1('ab')": NT1("ab"), "NT1('abc')": NT1("abc"),
 "dataclass private/classvar": D(1, 2), "slots": Slots(), "vars": Vars(), "hinted": Hinted(), "hinted-missing": HintedMissing(),
 "list": [1,2], "list of pairs": [("a",1),("b",2)], "list of 2-lists": [[1,2],[3,4]], "list of 2-strs": ["ab","cd"], "list first pair then not": [(1,2), 3], "list of 2-sets": [{1,2}],
 "tuple": (1,2,3), "set": {1}, "deque": collections.deque([1,2]), "deque pairs": collections.deque([(1,2)]),
 "gen pairs": gen([("a",1),("b",2)]), "gen nonpairs": gen([1,2,3]), "gen empty": gen([]), "iter list": iter([1,2]), "iter empty": iter([]),
 "str": "ab", "bytes": b"ab", "empty list": [], "empty dict": {}, "empty str": "", "list of dicts 2": [{"a":1,"b":2}],
 "int": 5, "None": None,
 "dict_items": {"a":1}.items(), "dict_keys": {"a":1}.keys(), "range": range(3), "frozenset pairs": frozenset({(1,2)}),
}
import copy
for k, x in cases.items():
    print(k.ljust(28), "items:", it(x))
for k, x in cases.items():
    if "gen" in k or "iter" in k: 
        x = gen([("a",1),("b",2)]) if k=="gen pairs" else gen([1,2,3]) if k=="gen nonpairs" else gen([]) if k=="gen empty" else iter([1,2]) if k=="iter list" else iter([])
    print(k.ljust(28), "values:", iv(x))
