import datetime as dt, decimal, fractions, uuid, pathlib, re, enum, typing as t, warnings
warnings.simplefilter("ignore")
import typelib
from typelib import serdes

def rt(T, v):
    try:
        m = typelib.marshal(v, t=T)
        u = typelib.unmarshal(T, m)
        ok = (u == v and type(u) is type(v))
        return ok, m, u
    except Exception as e:
        return False, 'EXC', repr(e)

tz = dt.timezone(dt.timedelta(hours=5, minutes=30))
cases = [
 (dt.timedelta, dt.timedelta(days=7)),
 (dt.timedelta, dt.timedelta(days=8, seconds=3)),
 (dt.timedelta, dt.timedelta(days=6)),
 (dt.timedelta, dt.timedelta(seconds=59, microseconds=999999)),
 (dt.timedelta, dt.timedelta(seconds=-1)),
 (dt.timedelta, dt.timedelta(days=-1, seconds=5)),
 (dt.timedelta, dt.timedelta(0)),
 (dt.timedelta, dt.timedelta(microseconds=1)),
 (dt.timedelta, dt.timedelta(days=400)),
 (dt.timedelta, dt.timedelta(days=999999999)),
 (dt.time, dt.time(1,2,3,tzinfo=tz)),
 (dt.time, dt.time(1,2,3,tzinfo=dt.timezone.utc)),
 (dt.time, dt.time(1,2,3, 5,tzinfo=dt.timezone.utc)),
 (dt.time, dt.time(1,2,3)),
 (dt.datetime, dt.datetime(2020,1,2,3,4,5,6,tzinfo=tz)),
 (dt.datetime, dt.datetime(2020,1,2,3,4,5,6,tzinfo=dt.timezone.utc)),
 (dt.datetime, dt.datetime(2020,1,2,3,4,5,6)),
 (dt.datetime, dt.datetime(1,1,1,0,0,tzinfo=dt.timezone.utc)),
 (dt.datetime, dt.datetime(9999,12,31,23,59,59,999999,tzinfo=dt.timezone.utc)),
 (dt.date, dt.date(1,1,1)),
 (dt.date, dt.date(9999,12,31)),
 (dt.date, dt.date(999,1,1)),
 (int, 10**30), (int, -5), (float, 1e300), (float, 0.1), (float,-0.0),(bool, True),(bool, False),
 (str, "1"), (str, "null"), (str, '{"a":1}'), (str, ""),
 (decimal.Decimal, decimal.Decimal("1E+400")), (decimal.Decimal, decimal.Decimal("-0.000")),(decimal.Decimal, decimal.Decimal("NaN")),
 (fractions.Fraction, fractions.Fraction(-3,7)),(fractions.Fraction, fractions.Fraction(5)),
 (uuid.UUID, uuid.UUID(int=12345)),(uuid.UUID, uuid.UUID(int=0)),
 (pathlib.PurePosixPath, pathlib.PurePosixPath("a/b")),(pathlib.Path, pathlib.Path("/x/1")),(pathlib.Path, pathlib.Path("1")),(pathlib.Path, pathlib.Path("null")),
 (re.Pattern, re.compile("a+")),
]
for T, v in cases:
    ok, m, u = rt(T, v)
    print("OK " if ok else "BAD", T.__name__, repr(v), '->', repr(m), '->', repr(u))

class SE(str, enum.Enum):
    a = "1"; b = "x"; c = "null"; d='[1]'
class IE(enum.IntEnum):
    a = 1; b = 2
class E(enum.Enum):
    a = 1; b = "b"; c = None; d = 2.5
for T in (SE, IE, E):
    for v in T:
        ok, m, u = rt(T, v)
        print("OK " if ok else "BAD", T.__name__, repr(v), '->', repr(m), '->', repr(u))
for T, v in [(t.Literal[1,"a",None,True], 1),(t.Literal[1,"a",None,True], "a"),(t.Literal[1,"a",None,True], None),(t.Literal["1", 1], "1"), (t.Literal["null"], "null")]:
    ok, m, u = rt(T, v)
    print("OK " if ok else "BAD", T, repr(v), '->', repr(m), '->', repr(u))
