import typing as t, sys, types, itertools, dataclasses, decimal, datetime as dt, copy, enum, collections, pathlib, uuid, fractions, json
from tl import *
from typelib import serdes
@dataclasses.dataclass
class D:
    a: int
    b: str = "x"
def carriers(s):
    b = s.encode()
    return {"str": s, "bytes": b, "bytearray": bytearray(b), "mv": memoryview(b), "mvw": memoryview(bytearray(b))}
for T, s in [(int, "12"), (list[int], "[1, 2]"), (dict[str,int], '{"a": 1}'), (D, '{"a": "1"}'), (str, "héllo"), (float, "1.5"), (dt.date, "2020-01-01"), (uuid.UUID, str(uuid.UUID(int=3))), (tuple[int,str], '[1, "a"]'), (t.Optional[int], "5"), (list, "[1]"), (dict, '{"a":1}'), (t.Literal[1,2], "2"), (decimal.Decimal, "1.5"), (bool, "true"), (pathlib.PurePosixPath, "a/b"), (set[int], "[1,2]"), (dt.timedelta, "PT1S"), (enum.Enum("E", {"a": 1}), "1"), (None, "null"), (t.Any, "[1]")]:
    res = {}
    for k, c in carriers(s).items():
        clear_all()
        res[k] = repr(um(T, c))[:70]
    same = len(set(res.values())) == 1
    print("OK " if same else "BAD", str(T)[:30].ljust(30), s.ljust(12), res if not same else res["str"])
print("--- strload/load")
for s in ["1", "null", "true", "[1, 2]", '{"a": 1}', "abc", "1,2", "(1, 2)", "{1, 2}", "None", "True", "'q'", '"q"', "1e5", "nan", "NaN", "Infinity", "-Infinity", "", " ", "\x00", "\n1", "[1,", "{", "a b", "0x10", "1_0", "é", "1 if 1 else 2", "__import__('os')", "[]*5", "b'x'", "...", "1+2j", "- 1", "00", "01", "1.", ".5", "+1", "(", ")", "#", "\ud800" ]:
    out = {}
    for k, c in list(carriers(s).items()) if "\ud800" not in s else [("str", s)]:
        clear_all()
        try: out[k] = repr(serdes.load(c))
        except Exception as e: out[k] = f"EXC {type(e).__name__}: {str(e)[:50]}"
    try: j = repr(json.loads(s))
    except Exception: j = "<notjson>"
    same = len(set(out.values())) == 1
    print("OK " if same else "BAD", repr(s).ljust(22), "json="+j.ljust(14), out["str"] if same else out)
print(serdes.load(5), serdes.load(None), serdes.load([1]), serdes.load(1.5))
clear_all()
for bad in [b"\xff\xfe", bytearray(b"\xff"), memoryview(b"\xff")]:
    try: print(repr(serdes.load(bad)))
    except Exception as e: print("EXC", type(e).__name__, e)
