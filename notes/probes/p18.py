import typing as t, collections.abc as cabc, dataclasses
from tl import *
from typelib.py import inspection as I
@dataclasses.dataclass
class CallableDC:
    a: int
    def __call__(self): return self.a
print(I.origin(CallableDC), I.origin(cabc.Callable), I.origin(type))
for f in (I.isdatetype, I.ismappingtype, I.isiterabletype, I.isstructuredtype, I.isstringtype):
    for x in (CallableDC, cabc.Callable, t.Callable[[int], str], cabc.Awaitable):
        try: print(f.__name__, x, f(x))
        except Exception as e: print(f.__name__, x, "EXC", type(e).__name__, e)
print(um(CallableDC, {"a": "1"}))
print(ma(CallableDC, CallableDC(1)))
# origin of collection annotation concrete instantiable
for x in [t.Sequence[int], t.Mapping[str,int], t.AbstractSet[int], t.Iterable[int], t.Collection[int], t.MutableSequence[int], t.Deque[int], t.DefaultDict[str,int], t.OrderedDict[str,int], t.Counter[str], t.ChainMap[str,int], t.FrozenSet[int], t.KeysView[str], t.ValuesView[int], t.ItemsView[str,int], t.Reversible[int], t.Container[int], t.Iterator[int], t.Generator[int,None,None], cabc.Sequence[int], cabc.Set[int], cabc.MutableSet[int], cabc.Reversible[int], cabc.Container[int], t.MappingView, t.Sized, t.Hashable]:
    o = I.origin(x)
    try: inst = o(); ok = True
    except Exception as e: ok = f"EXC {e}"
    print(str(x).ljust(40), o, ok)
print(um(t.KeysView[str], ["a"]), um(t.Reversible[int], ["1"]), um(t.Container[int], ["1"]), um(t.ItemsView[str,int], [["a", 1]]))
