import ast, typing, typing as t, collections.abc, re
from typelib.py import future
def tr(s):
    try: return future.transform(s)
    except BaseException as e: return f"EXC {type(e).__name__}: {e}"
for s in ["str | int", "dict[str, int]", "list[int | None]", "int | str | None", "(int | str) | None", "int | (str | None)", "t.Optional[int | str]",
          "Literal['a|b']", "Literal['a', 'b'] | None", "t.Literal['list[int]']", "Callable[[int | str], list[int]]", "Annotated[int | str, 'a | b']",
          "'Foo | None'", "list['Foo | None']", "tuple[int, ...]", "tuple[()]", "dict", "list", "set", "tuple", "Pattern", "re.Pattern[str]", "Pattern[str]",
          "typing.List[int]", "collections.abc.Mapping[str, int | None]", "x.list[int]", "a.b.c", "1 + 2", "f(int | str)", "int if x else str", "[int | str]", "{'a': int | str}", "lambda: int | str",
          "int | str if x else y", "a | b & c", "a & b | c", "-a | b", "(a, b | c)", "a[b | c][d | e]", "a[b][c | d]", "x[1:2]", "x[a | b:c]", "not a | b", "a < b | c", "*a", "a[*b]", "a[b, *c]", "dict[str, list[dict[str, int | None]] | None]",
          "frozenset[int]", "type[int]", "int|str", "int  |  str", "(int)", "((int | str))", "a | b | c | d", "a | (b | c) | d", "(a | b) | (c | d)", "Literal[1 | 2]", "Literal[1] | Literal[2]", "None | int", "list[int] | dict[str, int]"]:
    print(s.ljust(48), '->', tr(s))
