import sys, types, itertools, typing as t, collections, dataclasses
from tl import *
counter = itertools.count()
def mkmod(src):
    name = f"topo_{next(counter)}"
    m = types.ModuleType(name); sys.modules[name] = m
    exec(compile(src, f"<{name}>", "exec"), m.__dict__); return m
EDGES = {"opt": "t.Optional[{X}]", "list": "list[{X}]", "dict": "dict[str, {X}]", "tup": "tuple[{X}, ...]", "pipe": "{X} | None"}
DEFAULT = {"opt": "None", "list": "dataclasses.field(default_factory=list)", "dict": "dataclasses.field(default_factory=dict)", "tup": "()", "pipe": "None"}
def src_for(n, edges):
    # edges: dict (src_idx, slot) -> (dst_idx, kind)
    s = "from __future__ import annotations\nimport dataclasses, typing as t\n"
    for i in range(n):
        s += f"@dataclasses.dataclass\nclass C{i}:\n    v: int = 0\n"
        for (si, slot), (di, kind) in edges.items():
            if si == i: s += f"    e{slot}: {EDGES[kind].format(X=f'C{di}')} = {DEFAULT[kind]}\n"
    return s
def build_value(m, n, edges, root, depth):
    cls = getattr(m, f"C{root}")
    kw = {"v": depth}
    if depth > 0:
        for (si, slot), (di, kind) in edges.items():
            if si != root: continue
            child = build_value(m, n, edges, di, depth - 1)
            kw[f"e{slot}"] = {"opt": child, "pipe": child, "list": [child], "dict": {"k": child}, "tup": (child,)}[kind]
    return cls(**kw)
def deep_raw(x):
    # any dict left where a dataclass should be?
    if dataclasses.is_dataclass(x):
        out = False
        for f in dataclasses.fields(x):
            v = getattr(x, f.name)
            if f.name.startswith("e"):
                vals = v if isinstance(v, (list, tuple)) else list(v.values()) if isinstance(v, dict) else [v]
                for c in vals:
                    if c is None: continue
                    if not dataclasses.is_dataclass(c): return True
                    if deep_raw(c): return True
        return out
    return False
ROOTS = {"cls": lambda C: C, "list": lambda C: list[C], "dict": lambda C: dict[str, C], "opt": lambda C: t.Optional[C], "tup": lambda C: tuple[C, ...]}
WRAP = {"cls": lambda v: v, "list": lambda v: [v], "dict": lambda v: {"k": v}, "opt": lambda v: v, "tup": lambda v: (v,)}
buckets = collections.Counter(); ex = {}; total = 0
kinds = list(EDGES)
def topologies():
    # n=1: one or two self edges
    for k in kinds: yield 1, {(0, 0): (0, k)}
    for k1, k2 in itertools.product(kinds, repeat=2): yield 1, {(0, 0): (0, k1), (0, 1): (0, k2)}
    # n=2: C0->C1 (k1), C1->C0 (k2), optional extra self edge on C0 or C1
    for k1, k2 in itertools.product(kinds, repeat=2):
        yield 2, {(0, 0): (1, k1), (1, 0): (0, k2)}
        for k3 in kinds:
            yield 2, {(0, 0): (1, k1), (1, 0): (0, k2), (0, 1): (0, k3)}
            yield 2, {(0, 0): (1, k1), (1, 0): (0, k2), (1, 1): (1, k3)}
            yield 2, {(0, 0): (1, k1), (1, 0): (0, k2), (0, 1): (1, k3)}   # two edges to same target
for n, edges in topologies():
    m = mkmod(src_for(n, edges))
    for root in range(n):
        for rk in ROOTS:
            T = ROOTS[rk](getattr(m, f"C{root}"))
            for depth in (0, 1, 3):
                total += 1
                v = WRAP[rk](build_value(m, n, edges, root, depth))
                clear_all(); w = None
                try:
                    w = typelib.marshal(v, t=T)
                    clear_all()
                    u = typelib.unmarshal(T, w)
                    if u == v: continue
                    inner = u[0] if rk in ("list", "tup") and u else (u["k"] if rk == "dict" and u else u)
                    key = ("mismatch", "raw left" if (not dataclasses.is_dataclass(inner)) or deep_raw(inner) else "other", "root=" + rk)
                except Exception as e:
                    key = ("exc", type(e).__name__, ("marshal" if "w" not in dir() or w is None else "unmarshal"), "root=" + rk)
                edge_kinds = tuple(sorted({k for (_, k) in edges.values()}))
                buckets[key] += 1; ex.setdefault(key, (sorted((a, b) for a, b in edges.items()), root, depth))
print(total, "cases")
for k, v in buckets.most_common(): print(v, k, "\n      e.g.", ex[k])
