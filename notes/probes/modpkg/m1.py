from __future__ import annotations
import dataclasses, typing as t
from typelib.py import compat
TA = compat.TypeAliasType
IntNT = t.NewType("IntNT", int)
IntAlias = TA("IntAlias", int)
IntStrAlias = TA("IntStrAlias", "int")
ListIntStr = TA("ListIntStr", "list[int]")
ListInt = TA("ListInt", list[int])
NTofAlias = t.NewType("NTofAlias", IntAlias)
AliasOfNT = TA("AliasOfNT", IntNT)
AliasOfStrAlias = TA("AliasOfStrAlias", IntStrAlias)
@dataclasses.dataclass
class P:
    x: int
PAlias = TA("PAlias", P)
PStrAlias = TA("PStrAlias", "P")
PNT = t.NewType("PNT", P)
@dataclasses.dataclass
class Holder:
    a: IntNT
    b: IntAlias
    c: IntStrAlias
    d: ListIntStr
    e: t.Final[int] = 0
    f: list[IntNT] = dataclasses.field(default_factory=list)
    g: dict[str, IntStrAlias] = dataclasses.field(default_factory=dict)
    h: tuple[IntAlias, IntStrAlias] = (0, 0)
    i: t.Optional[IntStrAlias] = None
    j: PStrAlias = None
    k: list[PStrAlias] = dataclasses.field(default_factory=list)
    l: PNT = None
    m: NTofAlias = 0
    n: AliasOfNT = 0
    o: AliasOfStrAlias = 0
