import typing as t, decimal, datetime as dt, dataclasses, collections, collections.abc as cabc, sys, types
import typing_extensions as te
from tl import *
from typelib.py import compat, refs, inspection
from typelib import graph
TA = compat.TypeAliasType

def build(T):
    clear_all()
    out = []
    for nm, f in (("m", typelib.marshaller), ("u", typelib.unmarshaller), ("c", typelib.codec)):
        try:
            r = f(T); out.append(f"{nm}:{type(r).__name__}")
        except RecursionError as e:
            out.append(f"{nm}:RecursionError")
        except Exception as e:
            out.append(f"{nm}:EXC {type(e).__name__}: {str(e)[:80]}")
    return out
Tv = t.TypeVar("Tv"); Tb = t.TypeVar("Tb", bound=int); Tc = t.TypeVar("Tc", int, str)
class Box(t.Generic[Tv]):
    def __init__(self, item: Tv): self.item = item
@dataclasses.dataclass
class DBox(t.Generic[Tv]):
    item: Tv
class NoHints:
    def __init__(self, a, b=1): self.a=a; self.b=b
class Empty: pass
cases = [t.Any, object, list, dict, tuple, set, frozenset, t.List, t.Dict, t.Tuple, t.Set, t.Sequence, t.Mapping, t.Iterable, t.Iterator,
  list[t.Any], dict[str, t.Any], dict[t.Any, t.Any], tuple[t.Any, ...], tuple[int, ...], tuple[tuple[int, ...], tuple[str, ...]], tuple[()], 
  list[Tv], list[Tb], list[Tc], dict[str, Tv], Tv, Tb, Tc,
  t.Callable, t.Callable[[int], str], t.Callable[..., int], cabc.Callable[[int], str], list[t.Callable[[int], str]],
  type, type[int], t.Type[int], list[type[int]],
  Box, Box[int], DBox, DBox[int], list[Box[int]], list[DBox[int]], NoHints, Empty, list[NoHints],
  t.Optional[t.Any], t.Union[int, t.Any] if False else t.Optional[list], t.Iterator[int], t.Generator[int, None, None], cabc.Iterator[int],
  collections.deque, collections.deque[int], collections.OrderedDict[str, int], collections.defaultdict[str, int], collections.Counter[str], collections.ChainMap[str,int],
  t.Deque[int], t.DefaultDict[str,int], t.OrderedDict[str,int], t.FrozenSet[int], t.AbstractSet[int], t.MutableSet[int], t.MutableSequence[int], t.MutableMapping[str,int], t.Collection[int], t.KeysView[str], t.ValuesView[int], t.ItemsView[str,int],
  t.Hashable, t.Sized, t.Annotated[int, "x"], list[t.Annotated[int, "x"]], t.Literal[1], t.LiteralString if hasattr(t,"LiteralString") else None, t.NoReturn, t.Never if hasattr(t, "Never") else None,
  type(None), None, ..., bytes, bytearray, memoryview, list[bytes], complex, range, slice,
  t.Final[int], t.ClassVar[int], t.Required[int] if hasattr(t,"Required") else None, 
]
for T in cases:
    print(repr(T)[:60].ljust(60), build(T))
