import sys
from tl import *
from typelib import serdes
for s in ["["*10000, "-"*100000+"1", "("*300+")"*300, "1"*5000, "9"*10000, "1e999999", "'"+"a"*10+"'"*3, "\x00"*5, "f'{1}'", "{**{}}", "[*[]]", "1 .real", "\\", "\t", "a"*100000, "0"*5000+"1", "(" + "1,"*50000 + ")", "{" + "1:1,"*20000 + "}", "~"*50000 + "1", "not "*30000+"1", "lambda: 1", "1\x00", "# c", "1 # c", "﻿1", "1;2", "x=1", "\r\n", "1\n2", '"\\ud800"', '"\\u0000"', "[1]]"]:
    try:
        r = serdes.strload(s)
        print(repr(s[:20]), len(s), "->", repr(r)[:40], type(r).__name__)
    except BaseException as e:
        print(repr(s[:20]), len(s), "RAISED", type(e).__name__, str(e)[:60])
