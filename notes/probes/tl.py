import sys, types, warnings
warnings.simplefilter("ignore")
import typelib, typelib.binding, typelib.graph, typelib.serdes, typelib.codecs, typelib.ctx
import typelib.py.inspection, typelib.py.refs, typelib.py.future, typelib.py.classes, typelib.py.frames
def cached_functions():
    out = {}
    for name, mod in list(sys.modules.items()):
        if not name.startswith("typelib"): continue
        for k, v in vars(mod).items():
            if hasattr(v, "cache_clear") and callable(v.cache_clear):
                out[f"{getattr(v,'__module__',name)}.{getattr(v,'__qualname__',k)}#{k}"] = v
    return out
def clear_all():
    for f in cached_functions().values():
        f.cache_clear()
def um(T, x):
    try:
        return typelib.unmarshal(T, x)
    except Exception as e:
        return f"EXC {type(e).__module__}.{type(e).__name__}: {e}"[:160]
def ma(T, x):
    try:
        return typelib.marshal(x, t=T)
    except Exception as e:
        return f"EXC {type(e).__module__}.{type(e).__name__}: {e}"[:160]
if __name__ == "__main__":
    for k in sorted(cached_functions()): print(k)
    print(len(cached_functions()))
