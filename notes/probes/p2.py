from __future__ import annotations
import dataclasses, typing as t, datetime as dt, decimal, uuid, enum, warnings, collections
warnings.simplefilter("ignore")
import typelib
from typelib import graph

def um(T, x):
    try:
        return typelib.unmarshal(T, x)
    except Exception as e:
        return f"EXC {type(e).__module__}.{type(e).__name__}: {e}"[:150]

print("--- C03")
print(um(tuple[int, str], [1]))
print(um(tuple[int, str], [1, "a", 3]))
print(um(tuple[int, str], "[1]"))
class TD(t.TypedDict):
    a: int
    b: str
print(um(TD, {}))
print(um(TD, {"a": "1"}))
print(um(TD, {"a": "1", "b": 2, "c": 3}))

@dataclasses.dataclass
class Node:
    v: int
    kids: list[Node] = dataclasses.field(default_factory=list)
print(um(Node, {"v": "1", "kids": [{"v": "2", "kids": []}]}))
print(um(list[Node], [{"v": "2", "kids": [{"v":"3"}]}]))
print(graph.static_order(Node))
print(graph.static_order(list[Node]))

@dataclasses.dataclass
class Opt:
    v: int
    nxt: t.Optional[Opt] = None
print(um(Opt, {"v": "1", "nxt": {"v": "2", "nxt": {"v":"3"}}}))
print(um(list[Opt], [{"v": "1", "nxt": {"v": "2", "nxt": {"v":"3"}}}]))
print(um(dict[str, Opt], {"k": {"v": "1", "nxt": {"v": "2", "nxt": {"v":"3"}}}}))

@dataclasses.dataclass
class DN:
    v: int
    kids: dict[str, DN] = dataclasses.field(default_factory=dict)
print(um(DN, {"v": "1", "kids": {"a": {"v": "2"}}}))
@dataclasses.dataclass
class TN:
    v: int
    kids: tuple[TN, ...] = ()
print(um(TN, {"v": "1", "kids": [{"v": "2"}]}))

print("--- list[int] inputs")
for x in [[1,"2"], "[1, 2]", "1,2", b"[1]", {"a": 1}, 5, None, "abc", (1,2), {"1","2"}, [("a",1),("b",2)], [(1,2)], [[1,2],[3,4]]]:
    print(repr(x), '->', um(list[int], x))
print("--- dict[str,int]")
for x in [{"a":"1"}, '{"a": 1}', [("a",1)], [["a",1]], [1,2], "ab", 5, None, [("a",1,2)]]:
    print(repr(x), '->', um(dict[str,int], x))
print("--- int")
for x in ["1", "1.5", 1.5, "abc", None, [1], {"x": 1}, b"12", True, "true", "null", "[1]", "0x10", " 1 ", "1_000", dt.date(1970,1,2), dt.timedelta(seconds=5)]:
    print(repr(x), '->', repr(um(int, x)))
print("--- float")
for x in ["1", "1.5", "nan", "inf", None, "1e5", [1], True]:
    print(repr(x), '->', repr(um(float, x)))
print("--- bool")
for x in ["true", "false", "1", "0", 0, 1, None, "", "no", []]:
    print(repr(x), '->', repr(um(bool, x)))
print("--- str")
for x in [1, None, b"ab", [1], {"a":1}, dt.date(2020,1,1), dt.timedelta(seconds=1), 1.5, True]:
    print(repr(x), '->', repr(um(str, x)))
