from __future__ import annotations
import dataclasses, typing as t, traceback
from tl import *
from typelib import graph
@dataclasses.dataclass
class C0:
    v: int = 0
    e0: t.Optional[C0] = None
clear_all()
print(um(t.Optional[C0], {"v": 0, "e0": None}))
for n in graph.static_order(t.Optional[C0]): print("   ", n)
u = typelib.unmarshaller(t.Optional[C0]); print(u.stack, u.ordered_routines)
try: u({"v": 0, "e0": None})
except Exception: traceback.print_exc()
for r in u.ordered_routines:
    try: print(r, r({"v": 0, "e0": None}))
    except Exception as e: print(r, "EXC", type(e).__name__, e)
@dataclasses.dataclass
class L0:
    v: int = 0
    e0: list[L0] = dataclasses.field(default_factory=list)
clear_all(); print(um(list[L0], [{"v": 1, "e0": [{"v": 0, "e0": []}]}]))
clear_all(); print(ma(list[L0], [L0(1, [L0(0)])]))
@dataclasses.dataclass
class T0:
    v: int = 0
    e0: tuple[T0, ...] = ()
    e1: tuple[T0, ...] = ()
clear_all()
try: typelib.marshaller(T0)
except Exception: traceback.print_exc()
