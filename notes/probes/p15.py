import dataclasses, pickle, copy, typing as t, warnings, weakref
warnings.simplefilter("ignore")
from typelib.py import classes
def trial(name, fn):
    try: print(name.ljust(40), fn())
    except BaseException as e: print(name.ljust(40), "EXC", type(e).__name__, str(e)[:100])

@dataclasses.dataclass
class P0:
    a: int
    b: str = "x"
    c: list = dataclasses.field(default_factory=list)
S0 = classes.slotted(P0)
trial("slots", lambda: S0.__slots__)
trial("construct default", lambda: S0(1))
trial("eq", lambda: S0(1) == S0(1))
trial("repr same", lambda: repr(S0(1)) == repr(P0(1)))
trial("no dict", lambda: hasattr(S0(1), "__dict__"))
trial("pickle", lambda: pickle.loads(pickle.dumps(S0(1, "y", [1]))))
trial("copy", lambda: copy.deepcopy(S0(1, "y", [1])))
trial("qualname/module", lambda: (S0.__qualname__, S0.__module__, S0.__name__))
trial("weakref", lambda: weakref.ref(S0(1)) is not None)
trial("fields", lambda: [f.name for f in dataclasses.fields(S0)])
trial("defaults kept", lambda: (S0(1).b, S0(1).c))
trial("replace", lambda: dataclasses.replace(S0(1), a=2))
trial("asdict", lambda: dataclasses.asdict(S0(1)))

@dataclasses.dataclass(frozen=True)
class F0:
    a: int
    b: str = "x"
SF = classes.slotted(F0, weakref=False)
global_SF = SF
trial("frozen construct", lambda: SF(1))
trial("frozen hash eq", lambda: hash(SF(1)) == hash(F0(1)))
trial("frozen setattr", lambda: setattr(SF(1), "a", 2))
F0 = SF  # make picklable by qualname
trial("frozen pickle", lambda: pickle.loads(pickle.dumps(SF(1, "q"))))
trial("frozen copy", lambda: copy.copy(SF(1, "q")))
trial("frozen deepcopy", lambda: copy.deepcopy(SF(1, "q")))

@dataclasses.dataclass(order=True)
class O0:
    a: int
SO = classes.slotted(O0)
trial("order", lambda: SO(1) < SO(2))

@dataclasses.dataclass
class Base:
    a: int
SB = classes.slotted(Base)
@dataclasses.dataclass
class Child(SB):
    b: int = 0
SC = classes.slotted(Child)
trial("child slots", lambda: SC.__slots__)
trial("child construct", lambda: SC(1, 2))
trial("child no dict", lambda: hasattr(SC(1,2), "__dict__"))
trial("child isinstance", lambda: isinstance(SC(1,2), SB))
@dataclasses.dataclass
class UBase:
    a: int
@dataclasses.dataclass
class UChild(UBase):
    b: int = 0
SUC = classes.slotted(UChild, weakref=False)
trial("uchild weakref=True", lambda: classes.slotted(UChild))
trial("stack after", lambda: set(classes._stack))
trial("uchild weakref=True again", lambda: classes.slotted(UChild))
classes._stack.clear()
trial("uchild slots", lambda: SUC.__slots__)
trial("uchild has dict (inherited)", lambda: hasattr(SUC(1,2), "__dict__"))
trial("uchild construct", lambda: (SUC(1,2).a, SUC(1,2).b))

trial("dict=True", lambda: classes.slotted(dict=True)(dataclasses.dataclass(type("Q", (), {"__annotations__": {"a": int}}))).__slots__)
# stack guard: same repr classes
def mk():
    @dataclasses.dataclass
    class Same:
        a: int
    return Same
trial("same name twice", lambda: (classes.slotted(mk()), classes.slotted(mk())))
# exception during wrap leaves _stack dirty?
class NotDC: pass
trial("non-dataclass", lambda: classes.slotted(NotDC))
trial("stack after failure", lambda: classes._stack)
trial("NotDC again", lambda: classes.slotted(NotDC))
@dataclasses.dataclass
class After: a: int
trial("after failure ok", lambda: classes.slotted(After))
trial("stack", lambda: classes._stack)
# zero fields
@dataclasses.dataclass
class Z: pass
trial("zero fields", lambda: (classes.slotted(Z).__slots__, classes.slotted(Z)()))
# user getstate
@dataclasses.dataclass(frozen=True)
class G:
    a: int
    def __getstate__(self): return {"a": self.a}
    def __setstate__(self, s): object.__setattr__(self, "a", s["a"])
SG = classes.slotted(G); G = SG
trial("user getstate pickle", lambda: pickle.loads(pickle.dumps(SG(5))))
# already slots=True native
@dataclasses.dataclass(slots=True)
class NS: a: int
trial("native slots", lambda: classes.slotted(NS).__slots__)
trial("native slots construct", lambda: classes.slotted(NS)(1))
# field with default & ClassVar
@dataclasses.dataclass
class CVd:
    a: int = 5
    k: t.ClassVar[int] = 9
SCV = classes.slotted(CVd)
trial("classvar kept", lambda: (SCV.k, SCV().a, SCV.__slots__))
# unsafe_hash
@dataclasses.dataclass(unsafe_hash=True)
class UH: a: int
trial("unsafe_hash", lambda: hash(classes.slotted(UH)(1)) == hash(UH(1)))
# eq=False
@dataclasses.dataclass(eq=False)
class NE: a: int
trial("eq false", lambda: classes.slotted(NE)(1) == classes.slotted(NE)(1))
# methods/properties preserved; super() usage
@dataclasses.dataclass
class M:
    a: int
    def double(self): return self.a*2
    def __post_init__(self): self.a += 1
trial("methods/postinit", lambda: classes.slotted(M)(1).double())
@dataclasses.dataclass
class SupBase:
    a: int
    def f(self): return 1
@dataclasses.dataclass
class Sup(SupBase):
    def f(self): return super().f() + 1
trial("zero-arg super", lambda: classes.slotted(Sup)(1).f())
