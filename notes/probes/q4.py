import itertools, typing as t, decimal, datetime as dt, uuid, dataclasses, enum, collections, sys
from tl import *
@dataclasses.dataclass
class DC:
    a: int
class En(enum.Enum):
    x = 1; y = "y"
Lit = t.Literal[1, "lit"]
pool = [int, str, float, decimal.Decimal, dt.date, dt.datetime, uuid.UUID, list[int], dict[str, int], DC, En, Lit]
inputs = [None, 0, 1, -1, 1.5, True, "1", "1.5", "abc", "", "null", "y", "lit", "2020-01-02", "2020-01-02T03:04:05+00:00", str(uuid.UUID(int=7)), "[1, 2]", '{"a": 1}', '{"k": 2}', b"1", b"abc", [1, 2], ["a"], [], {"a": 1}, {"a": "x"}, {"k": 2}, (1, 2), {1, 2}, DC(3), En.x, dt.date(2020, 1, 2), dt.datetime(2020, 1, 2, tzinfo=dt.timezone.utc), decimal.Decimal("2.5"), uuid.UUID(int=9), 10**20, "1e5", "0x10", "PT1S", object()]
def snap(r):
    if r[0] == "exc": return ("exc",)
    v = r[1]
    return ("ok", type(v).__qualname__, repr(v))
def call(f, x):
    try: return ("ok", f(x))
    except Exception as e: return ("exc", type(e))
NoneT = type(None)
member_routines = {}
def member(T):
    if T not in member_routines:
        clear_all(); member_routines[T] = typelib.unmarshaller(T)
    return member_routines[T]
for T in pool + [NoneT]: member(T)
buckets = collections.Counter(); examples = {}
total = 0
def run(members):
    global total
    clear_all()
    UT = t.Union[tuple(members)]
    try: u = typelib.unmarshaller(UT)
    except Exception as e:
        buckets[("BUILD", type(e).__name__)] += 1; return
    for x in inputs:
        total += 1
        got = call(u, x)
        if x is None and NoneT in members: exp = ("ok", None)
        else:
            exp = None
            excs = []
            for m in members:
                r = call(member(m), x)
                if r[0] == "ok": exp = r; break
                excs.append(r[1].__name__)
            if exp is None: exp = ("exc", ValueError)
        ok = snap(got) == snap(exp) and (got[0] == "ok" or exp[0] == "ok" or got[1] is ValueError)
        if not ok:
            if got[0] == "exc" and exp[0] == "ok": key = ("leaked", got[1].__name__)
            elif got[0] == "exc": key = ("wrong exc type", got[1].__name__)
            elif x is None: key = ("None not honoured", members.index(NoneT) == len(members) - 1)
            else: key = ("wrong member", "None in members" if NoneT in members else "no None")
            buckets[key] += 1; examples.setdefault(key, (members, x, got, exp))
for a, b in itertools.permutations(pool, 2):
    run((a, b))
    for pos in range(3):
        ms = [a, b]; ms.insert(pos, NoneT); run(tuple(ms))
import random
rnd = random.Random(1)
perms3 = list(itertools.permutations(pool, 3)); rnd.shuffle(perms3)
for p in perms3[:300]:
    run(p)
    for pos in range(4):
        ms = list(p); ms.insert(pos, NoneT); run(tuple(ms))
print(total, "calls")
for k, v in buckets.most_common(): print(k, v, "\n      e.g.", str(examples.get(k))[:260])
