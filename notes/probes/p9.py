import typing as t, sys, types, itertools, dataclasses, decimal, datetime as dt
from tl import *
from typelib.py import compat
TA = compat.TypeAliasType
counter = itertools.count()
def mkmod(src):
    name = f"synth_{next(counter)}"
    m = types.ModuleType(name); m.__dict__["__name__"] = name
    sys.modules[name] = m
    exec(compile(src, f"<{name}>", "exec"), m.__dict__)
    return m
HDR = "from __future__ import annotations\nimport typing as t, dataclasses, decimal, datetime as dt\nfrom typelib.py import compat\nTA = compat.TypeAliasType\n"
def wrap_src(kind, inner_name, new_name):
    return {
      "NT": f"{new_name} = t.NewType('{new_name}', {inner_name})",
      "TAV": f"{new_name} = TA('{new_name}', {inner_name})",
      "TAS": f"{new_name} = TA('{new_name}', '{inner_name}')",
      "FIN": f"{new_name} = t.Final[{inner_name}]",
      "CV": f"{new_name} = t.ClassVar[{inner_name}]",
    }[kind]
bases = {"int": ("int", "7", 7), "dec": ("decimal.Decimal", "1.5", decimal.Decimal("1.5")), "li": ("list[int]", '["1","2"]', [1,2]), "P": ("P", {"x":"3"}, None), "optint": ("t.Optional[int]", "5", 5), "date": ("dt.date", "2020-01-02", dt.date(2020,1,2))}
fails = {}
total = 0
for bname, (bsrc, inp, exp) in bases.items():
  for n in (1,2,3):
    for chain in itertools.product(["NT","TAV","TAS","FIN","CV"], repeat=n):
        # legality: NewType of Final/ClassVar? python allows at runtime anything. Final/ClassVar only outermost per property (root only for ClassVar). Keep: FIN/CV only as last (outermost).
        if any(k in ("FIN","CV") for k in chain[:-1]): continue
        src = HDR + "@dataclasses.dataclass\nclass P:\n    x: int\n" + f"W0 = {bsrc}\n"
        for i, k in enumerate(chain):
            src += wrap_src(k, f"W{i}", f"W{i+1}") + "\n"
        src += f"@dataclasses.dataclass\nclass H:\n    f: W{n}\n" if chain[-1] != "CV" else ""
        src += f"LW = list[W{n}]\nDW = dict[str, W{n}]\nTW = tuple[W{n}, str]\nUW = t.Union[W{n}, None]\n" if chain[-1] not in ("FIN","CV") else ""
        try:
            m = mkmod(src)
        except Exception as e:
            fails.setdefault(("MODULE", bname, chain), repr(e)); continue
        W = getattr(m, f"W{n}")
        positions = {"root": (W, lambda x: x, m.W0)}
        if hasattr(m, "LW"):
            positions["list"] = (m.LW, lambda x: [x], list[m.W0])
            positions["dict"] = (m.DW, lambda x: {"k": x}, dict[str, m.W0])
            positions["tuple"] = (m.TW, lambda x: [x, "s"], tuple[m.W0, str])
            positions["union"] = (m.UW, lambda x: x, t.Union[m.W0, None])
        if hasattr(m, "H"):
            positions["field"] = (m.H, lambda x: {"f": x}, None)
        for pos, (T, mk, T0) in positions.items():
            total += 1
            clear_all()
            got = um(T, mk(inp))
            if T0 is not None:
                clear_all()
                ref = um(T0, mk(inp))
            else:
                clear_all(); r0 = um(m.W0, inp); ref = m.H(f=r0) if not (isinstance(r0,str) and r0.startswith("EXC")) else r0
            if repr(got) != repr(ref):
                fails[(bname, chain, pos)] = (got, ref)
print(total, "cases", len(fails), "fails")
import collections
c = collections.Counter((k[1], k[2]) if len(k)==3 and k[0]!="MODULE" else k for k in fails)
for k, v in list(fails.items())[:60]: print(k, v)
