import typing as t, sys, types, itertools, dataclasses, decimal, datetime as dt, copy, enum, collections, pathlib, uuid, fractions
from tl import *
from typelib import serdes
print("--- C13 passthrough")
class NT(t.NamedTuple):
    a: str
    b: int
class NT2(t.NamedTuple):
    a: tuple[int, int]
    b: int
class NT1(t.NamedTuple):
    a: str
@dataclasses.dataclass
class D:
    a: str
    b: list[str]
class SE(str, enum.Enum):
    one = "1"; x = "x"
class TD(t.TypedDict):
    a: str
cases = [
 (NT, NT("ab", 1)), (NT, NT("abc", 1)), (NT2, NT2((1,2), 3)), (NT1, NT1("ab")),
 (D, D("1", ["null", "2"])), (D, D('{"a":1}', ["[1]"])),
 (list[str], ["1", "null", "[1,2]", "2020-01-01"]), (list[str], ["ab", "cd"]), (list[list[str]], [["ab","cd"]]),
 (list[tuple[str,str]], [("a","b")]), (list[tuple[int,int]], [(1,2),(3,4)]), (tuple[tuple[int,int], ...], ((1,2),)),
 (dict[str, str], {"a": "1", "b": "null"}), (dict[str,int], {"ab": 1}), (set[str], {"1", "ab"}), (frozenset[int], frozenset({1})),
 (tuple[str, int], ("ab", 1)), (tuple[str, str], ("a", "b")), (tuple[str, ...], ("ab","cd")),
 (collections.deque[int], collections.deque([1,2])),
 (SE, SE.one), (SE, SE.x), (list[SE], [SE.one]),
 (str, "1"), (str, "null"), (pathlib.PurePosixPath, pathlib.PurePosixPath("1")), (uuid.UUID, uuid.UUID(int=5)),
 (t.Optional[str], "null"), (t.Optional[str], "1"), (t.Optional[int], None), (t.Optional[D], D("a", [])),
 (TD, {"a": "1"}), (dict[str, D], {"k": D("1", ["2"])}), (list[D], [D("1", ["2"])]),
 (dt.datetime, dt.datetime(2020,1,1,tzinfo=dt.timezone.utc)), (dt.date, dt.date(2020,1,1)), (dt.timedelta, dt.timedelta(days=8)), (dt.time, dt.time(1, tzinfo=dt.timezone(dt.timedelta(hours=3)))),
 (decimal.Decimal, decimal.Decimal("1.0")), (fractions.Fraction, fractions.Fraction(1,3)), (float, 1.5), (int, 5), (bool, True),
 (list[dict[str,int]], [{"a":1,"b":2}]), (list[dict[str,int]], [{"ab":1}]), (list[set[int]], [{1,2}]), (list[frozenset[int]], [frozenset({1,2})]),
 (dict[str, tuple[int,int]], {"a": (1,2)}), (dict[int, str], {1: "a"}), (dict[tuple[int,int], str], {(1,2): "a"}),
 (t.Literal["1", "a"], "1"), (list[t.Literal["1"]], ["1"]),
]
for T, v in cases:
    clear_all()
    r = um(T, v)
    ok = (r == v and type(r) is type(v) and repr(r) == repr(v))
    print("OK " if ok else "BAD", str(T)[:45].ljust(45), repr(v)[:50].ljust(50), '->', repr(r)[:80])
