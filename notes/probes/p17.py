import typing as t, collections, collections.abc as cabc, datetime as dt, decimal, fractions, uuid, pathlib, re, enum, numbers, dataclasses, types, ipaddress, sys
from tl import *
from typelib.py import inspection as I, compat
import pendulum
class MyStr(str): pass
class MyList(list): pass
class MyDict(dict): pass
class IE(enum.IntEnum): a=1
class SE(str, enum.Enum): a="a"
class E(enum.Enum): a=1
class Fl(enum.Flag): a=1
@dataclasses.dataclass
class DC: a: int
class NT(t.NamedTuple): a: int
CNT = collections.namedtuple("CNT", ["a"])
class TD(t.TypedDict): a: int
class TDP(t.TypedDict, total=False): a: int
class Plain: 
    a: int
class MyDate(dt.date): pass
class MyDT(dt.datetime): pass
builtin = [int, bool, float, complex, str, bytes, bytearray, memoryview, list, tuple, set, frozenset, dict, type(None), range, object, type]
stdlib = [dt.date, dt.datetime, dt.time, dt.timedelta, decimal.Decimal, fractions.Fraction, uuid.UUID, pathlib.Path, pathlib.PurePath, pathlib.PurePosixPath, pathlib.PosixPath, re.Pattern, re.Match, collections.deque, collections.OrderedDict, collections.defaultdict, collections.Counter, collections.ChainMap, collections.UserDict, collections.UserList, collections.UserString, types.MappingProxyType, ipaddress.IPv4Address, numbers.Number, numbers.Integral, numbers.Real, pendulum.DateTime, pendulum.Date, pendulum.Time, pendulum.Duration, enum.Enum]
abcs = [getattr(cabc, n) for n in cabc.__all__ if n not in ("Buffer",)] 
typ = [t.List, t.Dict, t.Set, t.FrozenSet, t.Tuple, t.Deque, t.DefaultDict, t.OrderedDict, t.Counter, t.ChainMap, t.Sequence, t.MutableSequence, t.Mapping, t.MutableMapping, t.AbstractSet, t.MutableSet, t.Collection, t.Iterable, t.Iterator, t.Generator, t.Reversible, t.Container, t.Hashable, t.Sized, t.KeysView, t.ValuesView, t.ItemsView, t.MappingView, t.Awaitable, t.Coroutine, t.AsyncIterable, t.AsyncIterator, t.AsyncGenerator, t.ByteString if hasattr(t, "ByteString") else t.List, t.Pattern, t.Match, t.Type]
user = [MyStr, MyList, MyDict, IE, SE, E, Fl, DC, NT, CNT, TD, TDP, Plain, MyDate, MyDT]
def param(x):
    out = []
    for args in [(int,), (str, int), (int, ...), (int, str, float), (int, type(None), type(None))]:
        try: out.append(x[args if len(args) > 1 else args[0]])
        except Exception: pass
    return out
catalogue = []
for x in builtin + stdlib + abcs + typ + user:
    catalogue.append(x)
    catalogue += param(x)
# NewType / alias wrappers
for x in [int, str, list, dict, list[int], dict[str,int], dt.date, DC, NT, tuple[int,str], t.Mapping[str,int]]:
    catalogue.append(t.NewType("NTw", x)); catalogue.append(compat.TypeAliasType("TAw", x))
print(len(catalogue), "objects")
def resolve(x):
    # oracle: class the annotation resolves to
    x = I.unwrap(x) if False else x
    while True:
        if hasattr(x, "__supertype__"): x = x.__supertype__; continue
        if isinstance(x, compat.TypeAliasType): x = x.__value__; continue
        break
    o = t.get_origin(x) or x
    return o
def sub(base):
    def f(x):
        o = resolve(x)
        try: return issubclass(o, base)
        except TypeError: return None
    return f
oracles = {
 "isdatetype": sub(dt.date), "isdatetimetype": sub(dt.datetime), "istimetype": sub(dt.time), "istimedeltatype": sub(dt.timedelta),
 "isdecimaltype": sub(decimal.Decimal), "isfractiontype": sub(fractions.Fraction), "isuuidtype": sub(uuid.UUID),
 "isiterabletype": sub(cabc.Iterable), "isiteratortype": sub(cabc.Iterator), "istupletype": sub(tuple), "issequencetype": sub(cabc.Sequence), "iscollectiontype": sub(cabc.Collection),
 "ismappingtype": sub(cabc.Mapping), "isenumtype": sub(enum.Enum), "istexttype": sub((str, bytes, bytearray, memoryview)), "isstringtype": sub(str), "isbytestype": sub((bytes, bytearray, memoryview)),
 "isnumbertype": sub(numbers.Number), "isintegertype": sub(int), "isfloattype": sub(float), "ispatterntype": sub(re.Pattern), "ispathtype": sub(pathlib.PurePath),
}
import collections as C
dis = C.defaultdict(list); exc = C.defaultdict(list)
for name, orc in oracles.items():
    f = getattr(I, name)
    for x in catalogue:
        exp = orc(x)
        try: got = f(x)
        except Exception as e:
            exc[name].append((x, type(e).__name__)); continue
        if exp is None: continue
        if bool(got) != exp: dis[name].append((x, got, exp))
for k, v in dis.items(): print("DISAGREE", k, len(v), [(str(a)[:40], g, e) for a,g,e in v[:8]])
for k, v in exc.items(): print("RAISES", k, len(v), [(str(a)[:40], e) for a,e in v[:6]])
