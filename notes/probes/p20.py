from __future__ import annotations
import typing as t, dataclasses, collections, collections.abc as cabc, enum, datetime as dt, decimal, uuid, fractions, pathlib, re
import typing_extensions as te
from tl import *
@dataclasses.dataclass(slots=True)
class DS: a: int; b: str = "x"
@dataclasses.dataclass(kw_only=True)
class DK: a: int; b: str = "x"
@dataclasses.dataclass(frozen=True)
class DF: a: int; b: tuple[int, ...] = ()
class NT(t.NamedTuple): a: int; b: str = "x"
class TDt(t.TypedDict): a: int; b: str
class TDn(t.TypedDict): a: int; b: te.NotRequired[str]
class TDp(t.TypedDict, total=False): a: int
class Plain:
    a: int
    b: list[int]
    def __init__(self, a: int, b: list[int]): self.a = a; self.b = b
    def __eq__(self, o): return type(o) is Plain and (self.a, self.b) == (o.a, o.b)
    def __repr__(self): return f"Plain({self.a!r}, {self.b!r})"
class Slotted:
    __slots__ = ("a", "b")
    a: int
    b: str
    def __init__(self, a: int, b: str): self.a = a; self.b = b
    def __eq__(self, o): return type(o) is Slotted and (self.a, self.b) == (o.a, o.b)
    def __repr__(self): return f"Slotted({self.a!r}, {self.b!r})"
@dataclasses.dataclass
class WithFinal:
    a: t.Final[int]
    k: t.ClassVar[int] = 3
    b: t.Final[list[int]] = dataclasses.field(default_factory=list)
class E(enum.Enum): a = 1; b = "b"
class IE(enum.IntEnum): a = 1
def rt(T, v):
    clear_all()
    m = ma(T, v)
    clear_all()
    u = um(T, m)
    ok = (u == v and type(u) is type(v))
    print("OK " if ok else "BAD", str(T)[:40].ljust(40), repr(v)[:40].ljust(40), repr(m)[:50].ljust(50), repr(u)[:60])
rt(DS, DS(1)); rt(DK, DK(a=1)); rt(DF, DF(1, (2,3))); rt(NT, NT(1, "y")); rt(TDt, {"a": 1, "b": "x"}); rt(TDn, {"a": 1}); rt(TDn, {"a": 1, "b": "q"}); rt(TDp, {}); rt(Plain, Plain(1, [2])); rt(Slotted, Slotted(1, "z")); rt(WithFinal, WithFinal(1, [2]))
for T, v in [(dict[int,str], {1:"a"}), (dict[E,int], {E.a: 1, E.b: 2}), (dict[dt.date,int], {dt.date(2020,1,1): 1}), (dict[uuid.UUID,int], {uuid.UUID(int=1): 2}), (dict[decimal.Decimal,int], {decimal.Decimal("1.0"): 2}), (dict[bool,int], {True: 1}), (dict[float,int], {1.5: 1}), (dict[t.Literal["a","b"],int], {"a": 1}), (dict[tuple[int,int],int], {(1,2): 3}), (dict[frozenset[int],int], {frozenset({1}): 3}), (dict[t.Optional[str],int], {None: 1, "a": 2}), (dict[str,int], {"1": 1, "null": 2}), (dict[int,int], {1: 1}),
  (set[int], {1,2}), (frozenset[str], frozenset({"a"})), (collections.deque[int], collections.deque([1,2])), (tuple[int, ...], (1,2)), (tuple[int,str], (1,"a")), (t.List[int], [1]), (t.Sequence[int], [1]), (t.Mapping[str,int], {"a":1}), (t.AbstractSet[int], {1}), (t.Deque[int], collections.deque([1])), (t.Tuple[int, ...], (1,)), (t.Dict[str, t.List[int]], {"a":[1]}), (t.FrozenSet[int], frozenset({1})), (cabc.Sequence[int], [1]), (cabc.MutableMapping[str,int], {"a":1}), (cabc.Set[int], {1}), (t.Iterable[int], [1]), (t.Collection[int], [1]), (collections.OrderedDict[str,int], collections.OrderedDict(a=1)), (collections.defaultdict[str,int], collections.defaultdict(None, a=1)),
  (set[tuple[int,int]], {(1,2)}), (list[set[int]], [{1}]), (dict[str, dict[str, list[tuple[int,str]]]], {"a": {"b": [(1,"c")]}}), (list[t.Optional[int]], [1,None]), (tuple[t.Optional[int], str], (None, "a")), (list[E], [E.a, E.b]), (list[IE], [IE.a]), (list[dt.timedelta], [dt.timedelta(days=1)]), (set[dt.date], {dt.date(2020,1,1)}), (list[re.Pattern], [re.compile("a")]), (re.Pattern[str], re.compile("a")), (t.Pattern[str], re.compile("a")), (list[pathlib.PurePosixPath], [pathlib.PurePosixPath("a/b")]), (pathlib.PurePath, pathlib.PurePosixPath("a")), (pathlib.PureWindowsPath, pathlib.PureWindowsPath("a\\b")),(list[NT], [NT(1)]), (dict[str, NT], {"k": NT(1)}), (tuple[NT, ...], (NT(1),)), (list[TDt], [{"a":1,"b":"x"}])]:
    rt(T, v)
