import sys
sys.path.insert(0, "/verif/.deps")
import atheris
with atheris.instrument_imports(include=["typelib"]):
    import typelib
    from typelib import serdes
def TestOneInput(data):
    try:
        s = data.decode("utf-8")
    except UnicodeDecodeError:
        return
    serdes.strload.cache_clear()
    r = serdes.strload(s)
atheris.Setup(sys.argv, TestOneInput)
atheris.Fuzz()
