import sys, types, itertools, typing as t, os, pickle, time
from tl import *
from typelib import ctx
from typelib.py import refs, compat
def mkmod(name, src):
    m = types.ModuleType(name); sys.modules[name] = m
    exec(compile(src, f"<{name}>", "exec"), m.__dict__); return m
M = mkmod("k1", """
import dataclasses, typing as t
from typelib.py import compat
TA = compat.TypeAliasType
@dataclasses.dataclass
class P:
    x: int
P_nt = t.NewType("P_nt", P); P_ta = TA("P_ta", P); P_sa = TA("P_sa", "P"); P_fin = t.Final[P]; P_fr = t.ForwardRef("P", module="k1")
I_nt = t.NewType("I_nt", int); I_ta = TA("I_ta", int); I_sa = TA("I_sa", "int"); I_fin = t.Final[int]; I_fr = t.ForwardRef("int", module="builtins")
L = list[int]
L_nt = t.NewType("L_nt", L); L_ta = TA("L_ta", L); L_sa = TA("L_sa", "list[int]"); L_fin = t.Final[L]; L_fr = t.ForwardRef("list[int]", module="k1")
""")
fam = {"P": ["P","P_nt","P_ta","P_sa","P_fin","P_fr"], "I": ["int","I_nt","I_ta","I_sa","I_fin","I_fr"], "L": ["L","L_nt","L_ta","L_sa","L_fin","L_fr"]}
def key(n): return int if n == "int" else getattr(M, n)
# model: unwrapped form by construction
def unwrapped(base, n):
    kind = n.split("_")[-1] if "_" in n else "self"
    b = fam[base][0]
    if kind in ("nt","ta","fin"): return key(b)
    if kind == "sa": return ("FRBODY", base)   # forward ref to body text
    return key(n)
def model_lookup(stored, base, n):
    k = key(n)
    for sk, sv in stored:
        if sk is k: return sv
    if n.endswith("_fr"): return KeyError
    u = unwrapped(base, n)
    if isinstance(u, tuple):
        # string alias unwraps to ForwardRef(body, module) ; equal to X_fr ?
        fr = key(fam[base][5])
        for sk, sv in stored:
            if sk is fr: return sv
    else:
        for sk, sv in stored:
            if sk is u and sk is not k: return sv
    fr = key(fam[base][5])
    # forward reference naming k: only base itself is named by the family's ForwardRef
    if n == fam[base][0]:
        for sk, sv in stored:
            if sk is fr: return sv
    return KeyError
for base in fam:
    bad = 0; total = 0
    names = fam[base]
    for r in (1, 2):
        for ins in itertools.permutations(names, r):
            c = ctx.TypeContext(); stored = []
            for j, n in enumerate(ins):
                c[key(n)] = f"v{j}"; stored.append((key(n), f"v{j}"))
            for look in itertools.permutations(names, 2):
                c2 = ctx.TypeContext(c)
                for n in look:
                    total += 1
                    exp = model_lookup(stored, base, n)
                    try: got = c2[key(n)]
                    except KeyError: got = KeyError
                    if got != exp:
                        bad += 1
                        if bad <= 4: print("  MISMATCH", base, "stored", ins, "lookup seq", look, "at", n, "got", got, "exp", exp)
    print(base, total, "lookups", bad, "mismatches")
# fork cost
import multiprocessing
t0 = time.time()
n = 200
for i in range(n):
    r, w = os.pipe()
    pid = os.fork()
    if pid == 0:
        os.close(r)
        res = um(list[int], "[1, 2]")
        os.write(w, pickle.dumps(res)); os._exit(0)
    os.close(w); data = os.read(r, 1 << 16); os.close(r); os.waitpid(pid, 0)
print("fork+op+pipe:", (time.time() - t0) / n * 1000, "ms each", pickle.loads(data))
