import inspect, itertools, typing as t, decimal, fractions
from tl import *
from typelib import binding
P = inspect.Parameter
# distinguishable annotations: each converts str "7" into something distinct
ANN = {"po": int, "pk": float, "va": decimal.Decimal, "ko": fractions.Fraction, "vk": str}
KIND = {"po": P.POSITIONAL_ONLY, "pk": P.POSITIONAL_OR_KEYWORD, "va": P.VAR_POSITIONAL, "ko": P.KEYWORD_ONLY, "vk": P.VAR_KEYWORD}
bad_rows = {}
for mask in itertools.product([0,1], repeat=5):
    kinds = [k for k, m in zip(["po","pk","va","ko","vk"], mask) if m]
    params = [P(k, KIND[k], annotation=ANN[k]) for k in kinds]
    sig = inspect.Signature(params)
    def f(*a, **k): return a, k
    f = type("F", (), {"__call__": lambda self,*a,**k: (a,k), "__signature__": sig})()
    b = binding.bind(f)
    # call shapes
    shapes = []
    base_a, base_k = [], {}
    opts = []
    # each param passes 7 (int) -> expect converted per annotation
    def gen():
        pos_choices = [[]]
        for pk_as_kw in ([False, True] if "pk" in kinds else [False]):
            for nva in ([0,1,2] if "va" in kinds else [0]):
                for nvk in ([0,1,2] if "vk" in kinds else [0]):
                    a = []; k = {}
                    if "po" in kinds: a.append("7")
                    if "pk" in kinds:
                        if pk_as_kw: k["pk"] = "7"
                        else: a.append("7")
                    if nva and pk_as_kw and "pk" in kinds: continue
                    a += ["7"]*nva
                    if "ko" in kinds: k["ko"] = "7"
                    for i in range(nvk): k[f"x{i}"] = 7
                    yield tuple(a), k
    for a, k in gen():
        try:
            ba = sig.bind(*a, **k)
        except TypeError:
            continue
        exp_a = []; exp_k = {}
        # expected
        for name, val in ba.arguments.items():
            kind = KIND[name]
            ann = ANN[name]
            if kind == P.VAR_POSITIONAL:
                exp_a += [typelib.unmarshal(ann, v) for v in val]
            elif kind == P.VAR_KEYWORD:
                exp_k.update({kk: typelib.unmarshal(ann, v) for kk, v in val.items()})
            elif name in k:
                exp_k[name] = typelib.unmarshal(ann, val)
            else:
                exp_a.append(typelib.unmarshal(ann, val))
        try:
            got = b(*a, **k)
        except Exception as e:
            got = f"EXC {type(e).__name__}: {e}"
        exp = (tuple(exp_a), exp_k)
        def same(x, y):
            return x == y and repr(x) == repr(y)
        if not (isinstance(got, tuple) and same(got, exp)):
            bad_rows.setdefault((tuple(kinds), type(b.binding).__name__), []).append((a, k, got, exp))
for row, fails in bad_rows.items():
    print(row, len(fails))
    for f in fails[:2]: print("     ", f)
print(len(bad_rows), "bad rows")
