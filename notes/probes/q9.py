from __future__ import annotations
import dataclasses, typing as t, traceback
from tl import *
from typelib import graph
@dataclasses.dataclass
class C0:
    v: int = 0
    e0: t.Optional[C1] = None
    e1: tuple[C0, ...] = ()
@dataclasses.dataclass
class C1:
    v: int = 0
    e0: t.Optional[C0] = None
clear_all()
try: print(typelib.marshal((C1(),), t=tuple[C1, ...]))
except Exception: traceback.print_exc(limit=-6)
clear_all()
try:
    for n in graph.static_order(tuple[C1, ...]): print("  ", n)
except Exception: traceback.print_exc(limit=-3)
