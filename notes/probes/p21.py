import datetime as dt, decimal, fractions, typing as t
from tl import *
from typelib import serdes
UTC = dt.timezone.utc
def tz(h, m=0): return dt.timezone(dt.timedelta(hours=h, minutes=m))
print("--- text of temporals parse back")
for T, v in [(dt.datetime, dt.datetime(2020,1,2,3,4,5,tzinfo=tz(-23,-59))), (dt.datetime, dt.datetime(2020,1,2,3,4,5,123456,tzinfo=tz(14))), (dt.datetime, dt.datetime(2020,11,1,1,30,fold=1,tzinfo=UTC)), (dt.datetime, dt.datetime(99,1,2,tzinfo=UTC)), (dt.datetime, dt.datetime(2020,1,2,3,4,5,tzinfo=dt.timezone(dt.timedelta(seconds=3601)))),
             (dt.time, dt.time(23,59,59,999999,tzinfo=tz(-12))), (dt.time, dt.time(0,0,tzinfo=tz(5,30))), (dt.time, dt.time(1,2,3,fold=1,tzinfo=UTC)), (dt.date, dt.date(99,1,2)), (dt.date, dt.date(2020,2,29))]:
    s = v.isoformat()
    for carrier in (s, s.encode()):
        clear_all()
        r = um(T, carrier)
        ok = (not isinstance(r, str)) and r == v and type(r) is T and (getattr(r,'utcoffset',lambda:None)() == getattr(v,'utcoffset',lambda:None)()) and getattr(r, "fold", 0) == getattr(v, "fold", 0)
        print("OK " if ok else "BAD", T.__name__, repr(carrier)[:40].ljust(40), repr(r)[:90])
print("--- numeric -> temporal")
for T, x in [(dt.datetime, 0), (dt.datetime, 1.5), (dt.datetime, -1), (dt.datetime, 86400*365.25*30), (dt.datetime, "0"), (dt.datetime, "1.5"), (dt.datetime, b"86400"), (dt.date, 86400), (dt.date, 86399.9), (dt.date, "86400"), (dt.time, 3661), (dt.time, 3661.5), (dt.time, "3661"), (dt.time, b"3661"), (dt.timedelta, 90), (dt.timedelta, 90.5), (dt.timedelta, "90"), (dt.timedelta, "90.5"), (dt.timedelta, -5), (dt.timedelta, True), (dt.datetime, True), (dt.datetime, 1e18), (dt.datetime, -1e18), (dt.date, "2020"), (dt.datetime, "2020"), (dt.datetime, "20200102"), (dt.timedelta, "1e3"), (dt.datetime, "٣")]:
    clear_all(); print(T.__name__.ljust(10), repr(x).ljust(14), repr(um(T, x))[:100])
print("--- temporal -> numeric / str / bytes")
for T, x in [(int, dt.datetime(1970,1,2,tzinfo=UTC)), (float, dt.datetime(1970,1,2,0,0,0,500000,tzinfo=UTC)), (float, dt.datetime(1970,1,2,tzinfo=tz(1))), (int, dt.date(1970,1,2)), (float, dt.timedelta(seconds=1.5)), (int, dt.timedelta(days=1)), (decimal.Decimal, dt.date(1970,1,2)), (fractions.Fraction, dt.timedelta(seconds=0.5)), (float, dt.time(1,0,tzinfo=UTC)), (float, dt.datetime(1970,1,2)), (str, dt.datetime(1970,1,2,tzinfo=tz(1))), (str, dt.timedelta(days=8)), (bytes, dt.date(1970,1,2)), (bytes, dt.timedelta(seconds=1)), (str, dt.time(1,0,tzinfo=tz(2))), (bool, dt.timedelta(0))]:
    clear_all(); print(T.__name__.ljust(10), repr(x)[:60].ljust(60), repr(um(T, x))[:60])
print("--- cache-warm equal-but-different representation")
clear_all()
d1 = dt.datetime(2020,1,1,12,tzinfo=UTC); d2 = d1.astimezone(tz(5))
print(um(str, d1), um(str, d2))
clear_all(); print(um(dt.datetime, "2020-01-01T12:00:00+00:00"), um(dt.datetime, "2020-01-01T12:00:00Z"))
clear_all(); print(repr(um(dt.timedelta, "PT1S")), repr(um(dt.timedelta, "P0DT1S")), repr(um(dt.timedelta, "PT1.0S")), repr(um(dt.timedelta, "P1W")), repr(um(dt.timedelta, "P1Y")), repr(um(dt.timedelta, "P1M")))
clear_all(); print(repr(serdes.dateparse("1", dt.datetime)), repr(serdes.dateparse("1", dt.timedelta)));
clear_all(); print(repr(serdes.dateparse("1", dt.timedelta)), repr(serdes.dateparse("1", dt.datetime)))
print(repr(um(dt.datetime, "12")), repr(um(dt.datetime, "1234")), repr(um(dt.datetime, "123456")), repr(um(dt.date, "12345678")))
