import sys, types, itertools, typing as t
from tl import *
from typelib import graph
def mkmod(name, src):
    m = types.ModuleType(name); sys.modules[name] = m
    exec(compile(src, f"<{name}>", "exec"), m.__dict__); return m
HDR = "from __future__ import annotations\nimport dataclasses, typing as t, decimal\n"
ma_ = mkmod("advA", HDR + """
@dataclasses.dataclass
class Item:
    value: int
@dataclasses.dataclass
class Box:
    item: Item
    value: str
""")
mb_ = mkmod("advB", HDR + """
import advA
@dataclasses.dataclass
class Item:
    value: decimal.Decimal
@dataclasses.dataclass
class Box:
    item: Item
    other: advA.Item
    boxes: list[advA.Box]
    value: float
""")
clear_all()
print(um(mb_.Box, {"item": {"value": "1.5"}, "other": {"value": "2"}, "boxes": [{"item": {"value": "3"}, "value": 4}], "value": "5"}))
for n in graph.static_order(mb_.Box): print("  ", n)
clear_all()
print(ma(mb_.Box, mb_.Box(mb_.Item(__import__("decimal").Decimal("1.5")), ma_.Item(2), [ma_.Box(ma_.Item(3), "4")], 5.0)))
# structured source shapes
clear_all()
print(um(ma_.Box, {"item": {"value": "1"}, "value": 2}))
print(um(ma_.Box, [("item", {"value": "1"}), ("value", 2)]))
print(um(ma_.Box, '{"item": {"value": "1"}, "value": 2}'))
print(um(ma_.Box, mb_.Box(mb_.Item(1), ma_.Item(2), [], 2.0)))   # other structured with overlapping fields
print(um(ma_.Item, mb_.Item(7)))
print(um(ma_.Box, [("item", [("value", "1")]), ("value", 2)]))
print(um(ma_.Box, (("item", {"value": "1"}), ("value", 2))))
print(um(ma_.Box, iter([("item", {"value": "1"}), ("value", 2)])))
