import typing as t, collections, collections.abc as cabc, datetime as dt, decimal, fractions, uuid, pathlib, re, enum, numbers, dataclasses, types, ipaddress, sys, inspect, functools, sqlite3
from tl import *
from typelib.py import inspection as I, compat, refs
import pendulum
# ---- catalogue by construction: each entry = (obj, facts)
class MyStr(str): pass
class MyInt(int): pass
class MyList(list): pass
class MyDict(dict): pass
class MyTuple(tuple): pass
class MyDate(dt.date): pass
class MyDT(dt.datetime): pass
class MyDec(decimal.Decimal): pass
class MyUUID(uuid.UUID): pass
class IE(enum.IntEnum): a = 1
class SE(str, enum.Enum): a = "a"
class E(enum.Enum): a = 1
class Fl(enum.Flag): a = 1
@dataclasses.dataclass
class DC: a: int
@dataclasses.dataclass(frozen=True)
class FDC: a: int
class DCsub(DC): pass
class NT(t.NamedTuple): a: int
CNT = collections.namedtuple("CNT", ["a"])
class TD(t.TypedDict): a: int
class TDP(t.TypedDict, total=False): a: int
class Plain:
    a: int
class Slots:
    __slots__ = ("a",)
class CM(cabc.Mapping):
    def __getitem__(self, k): raise KeyError
    def __iter__(self): return iter(())
    def __len__(self): return 0
class CS(cabc.Sequence):
    def __getitem__(self, i): raise IndexError
    def __len__(self): return 0
Tv = t.TypeVar("Tv")
class G(t.Generic[Tv]): pass
classes_builtin = [int, bool, float, complex, str, bytes, bytearray, memoryview, list, tuple, set, frozenset, dict, type(None), range]
classes_stdlib = [dt.date, dt.datetime, dt.time, dt.timedelta, decimal.Decimal, fractions.Fraction, uuid.UUID, pathlib.Path, pathlib.PurePath, pathlib.PurePosixPath, pathlib.PosixPath, pathlib.PureWindowsPath, re.Pattern, collections.deque, collections.OrderedDict, collections.defaultdict, collections.Counter, collections.ChainMap, collections.UserDict, collections.UserList, collections.UserString, types.MappingProxyType, sqlite3.Row, ipaddress.IPv4Address, ipaddress.IPv6Address, numbers.Number, numbers.Integral, numbers.Real, numbers.Rational, pendulum.DateTime, pendulum.Date, pendulum.Time, pendulum.Duration, enum.Enum, enum.IntEnum]
abcs = [getattr(cabc, n) for n in cabc.__all__ if n not in ("Buffer", "Callable")]
tnames = ["List","Dict","Set","FrozenSet","Tuple","Deque","DefaultDict","OrderedDict","Counter","ChainMap","Sequence","MutableSequence","Mapping","MutableMapping","AbstractSet","MutableSet","Collection","Iterable","Iterator","Generator","Reversible","Container","Hashable","Sized","KeysView","ValuesView","ItemsView","MappingView","Awaitable","Coroutine","AsyncIterable","AsyncIterator","AsyncGenerator","Pattern"]
typing_aliases = [getattr(t, n) for n in tnames]
user = [MyStr, MyInt, MyList, MyDict, MyTuple, MyDate, MyDT, MyDec, MyUUID, IE, SE, E, Fl, DC, FDC, DCsub, NT, CNT, TD, TDP, Plain, Slots, CM, CS, G]
NPARAMS = {}
def try_param(x):
    out = []
    for args in [(int,), (str, int), (int, ...), (int, str, float), (int, type(None), type(None))]:
        try: out.append((x[args if len(args) > 1 else args[0]], args))
        except Exception: pass
    return out
cat = []  # (obj, resolved_class, subscripted, args)
GMAP = {cabc.Sequence: list, cabc.MutableSequence: list, cabc.Collection: list, cabc.Iterable: list, cabc.Set: set, cabc.MutableSet: set, cabc.Mapping: dict, cabc.MutableMapping: dict, cabc.Hashable: str}
def resolved_of(cls):  # cls is a real class (origin); apply documented map
    return GMAP.get(cls, cls)
for x in classes_builtin + classes_stdlib + abcs + user:
    cat.append((x, resolved_of(x), False, ()))
    for p, a in try_param(x): cat.append((p, resolved_of(x), True, a))
for x in typing_aliases:
    o = t.get_origin(x)
    cat.append((x, resolved_of(o), False, ()))
    for p, a in try_param(x): cat.append((p, resolved_of(o), True, a))
base_n = len(cat)
for (x, r, s, a) in list(cat[:base_n:7]):
    cat.append((t.NewType("NTw", x), r, s, a)); cat.append((compat.TypeAliasType("TAw", x), r, s, a)); cat.append((t.NewType("NT2", t.NewType("NT1", x)), r, s, a))
print(len(cat), "catalogue objects")
def sub(base):
    return lambda x, r, s, a: issubclass(r, base)
ORACLES = {
 "isdatetype": sub(dt.date), "isdatetimetype": sub(dt.datetime), "istimetype": sub(dt.time), "istimedeltatype": sub(dt.timedelta),
 "isdecimaltype": sub(decimal.Decimal), "isfractiontype": sub(fractions.Fraction), "isuuidtype": sub(uuid.UUID),
 "isiterabletype": sub(cabc.Iterable), "isiteratortype": sub(cabc.Iterator), "istupletype": sub(tuple), "iscollectiontype": sub(cabc.Collection),
 "ismappingtype": lambda x, r, s, a: issubclass(r, cabc.Mapping) or issubclass(r, (dict, sqlite3.Row, types.MappingProxyType)),
 "isenumtype": sub(enum.Enum), "istexttype": sub((str, bytes, bytearray, memoryview)), "isstringtype": sub(str), "isbytestype": sub((bytes, bytearray, memoryview)),
 "isnumbertype": sub(numbers.Number), "isintegertype": sub(int), "isfloattype": sub(float), "ispatterntype": sub(re.Pattern), "ispathtype": sub(pathlib.PurePath),
 "istypeddict": lambda x, r, s, a: (not s) and t.is_typeddict(r) and x is r,
 "isnamedtuple": lambda x, r, s, a: issubclass(r, tuple) and hasattr(r, "_fields") and inspect.isclass(x),
 "isfixedtupletype": lambda x, r, s, a: s and issubclass(r, tuple) and len(a) > 0 and a[-1] is not Ellipsis and t.get_origin(x) is not None,
 "issubscriptedgeneric": lambda x, r, s, a: s,
 "isfrozendataclass": lambda x, r, s, a: inspect.isclass(x) and dataclasses.is_dataclass(x) and x.__dataclass_params__.frozen,
 "isbuiltinsubtype": None, "isstdlibsubtype": None,
}
def seq_oracle(x, r, s, a):
    if issubclass(r, cabc.Sequence): return True
    if not issubclass(r, cabc.Collection): return False
    return None
ORACLES["issequencetype"] = seq_oracle
import collections as C
dis = C.defaultdict(list); exc = C.defaultdict(list); n_eval = 0
for name, orc in ORACLES.items():
    if orc is None: continue
    f = getattr(I, name)
    for (x, r, s, a) in cat:
        wrapped = hasattr(x, "__supertype__") or isinstance(x, compat.TypeAliasType)
        if name in ("istypeddict", "isnamedtuple", "isfrozendataclass", "isfixedtupletype", "issubscriptedgeneric") and wrapped: continue
        exp = orc(x, r, s, a)
        if exp is None: continue
        n_eval += 1
        try: got = f(x); got2 = f(x)
        except Exception as e:
            exc[name].append((x, type(e).__name__)); continue
        if bool(got) != bool(exp): dis[name].append((x, got, exp))
        if got != got2: dis[name + ":unstable"].append(x)
print(n_eval, "evaluations")
for k, v in dis.items(): print("DISAGREE", k, len(v), [(str(a)[:38], g, e) for a, g, e in v[:6]])
for k, v in exc.items(): print("RAISES", k, len(v), sorted({str(a)[:38] for a, e in v})[:6])
# origin(): collection annotations concrete & instantiable
bad = []
for (x, r, s, a) in cat:
    if hasattr(x, "__supertype__") or isinstance(x, compat.TypeAliasType): continue
    o0 = t.get_origin(x) or x
    if inspect.isclass(o0) and issubclass(o0, cabc.Collection) and o0 not in (str, bytes, bytearray, memoryview, range, cabc.ByteString if hasattr(cabc,"ByteString") else str) and not issubclass(o0, (enum.Enum,)) :
        try:
            o = I.origin(x)
            inst = o() if not issubclass(o, tuple) or not hasattr(o, "_fields") else None
            ok = inst is None or isinstance(inst, o0)
            if inspect.isabstract(o) or not ok: bad.append((x, o))
        except Exception as e: bad.append((x, f"EXC {type(e).__name__}: {str(e)[:40]}"))
print("origin not concrete/instantiable:", len(bad), [(str(a)[:35], str(b)[:50]) for a, b in bad[:12]])
# spelling independence
pairs = [(t.List[int], list[int]), (t.Dict[str,int], dict[str,int]), (t.Optional[int], int | None), (t.Union[int,str], int | str), (t.Tuple[int, ...], tuple[int, ...]), (t.Set[int], set[int]), (t.FrozenSet[int], frozenset[int]), (t.Deque[int], collections.deque[int]), (t.Sequence[int], cabc.Sequence[int]), (t.Mapping[str,int], cabc.Mapping[str,int]), (t.Type[int], type[int])]
preds = [n for n in I.__all__ if n.startswith("is")] + ["origin", "args", "isstructuredtype", "isgeneric", "issubscriptedgeneric", "isnonetype", "isnumbertype", "isintegertype", "isfloattype", "isbytestype", "isiteratortype", "isdatetimetype", "isfractiontype", "ispathtype", "ispatterntype", "iscallable", "istypealiastype", "unwrap"]
sp = []
for a, b in pairs:
    for n in sorted(set(preds)):
        f = getattr(I, n)
        try: ra = f(a)
        except Exception as e: ra = f"EXC {type(e).__name__}"
        try: rb = f(b)
        except Exception as e: rb = f"EXC {type(e).__name__}"
        if n == "unwrap": continue
        if ra != rb: sp.append((n, str(a), ra, rb))
print("spelling-dependent answers:", len(sp)); [print("   ", x) for x in sp[:20]]
print("---- origin detail")
seen = {}
for a, b in bad:
    o0 = t.get_origin(a) or a
    seen.setdefault(o0, b)
for k, v in seen.items(): print("   ", k, "->", str(v)[:90])
