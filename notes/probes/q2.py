from __future__ import annotations
import typing as t, dataclasses, collections, datetime as dt, decimal, uuid, enum, sys, types
from tl import *
from typelib import graph
from typelib.py import refs, inspection, compat
TA = compat.TypeAliasType
def mkmod(name, src):
    m = types.ModuleType(name); sys.modules[name] = m
    exec(compile(src, f"<{name}>", "exec"), m.__dict__); return m
M = mkmod("g1", """
from __future__ import annotations
import dataclasses, typing as t, decimal, enum, datetime as dt
from typelib.py import compat
TA = compat.TypeAliasType
IntNT = t.NewType("IntNT", int)
LA = TA("LA", list[int])
SA = TA("SA", "list[int]")
class E(enum.Enum):
    a = 1
@dataclasses.dataclass
class Leaf:
    v: IntNT
    e: E
    lit: t.Literal[1, "a"]
@dataclasses.dataclass
class Mid:
    leaf: Leaf
    la: LA
    sa: SA
    d: dict[str, list[Leaf]]
    fin: t.Final[int] = 0
@dataclasses.dataclass
class Cyc:
    nxt: t.Optional[Cyc] = None
    mid: t.Optional[Mid] = None
class NTu(t.NamedTuple):
    a: int
    c: Cyc
class TDd(t.TypedDict):
    x: tuple[int, str]
    y: tuple[Leaf, ...]
Rec = TA("Rec", "dict[str, Rec | int]")
""")
def direct_members(u):
    # independent: generic args (minus Ellipsis) + field hints for classes
    if t.get_origin(u) is t.Literal: return []
    args = [a for a in t.get_args(u) if a is not Ellipsis]
    hints = []
    if isinstance(u, type) and not issubclass(u, enum.Enum) and u.__module__ == "g1":
        hints = list(t.get_type_hints(u).values())
    return args + hints
def unwrap_ref(x):
    while True:
        if t.get_origin(x) in (t.Final, t.ClassVar): x = t.get_args(x)[0]; continue
        if isinstance(x, compat.TypeAliasType):
            v = x.__value__
            if isinstance(v, str): return ("strref", v)
            x = v; continue
        if hasattr(x, "__supertype__"): x = x.__supertype__; continue
        return x
def check(T, label):
    clear_all()
    nodes = graph.static_order(T)
    problems = []
    if len(set(nodes)) != len(nodes): problems.append("dups")
    root = nodes[-1]
    if root.type != T: problems.append(f"root {root.type}")
    def denotes(n):
        if isinstance(n.type, t.ForwardRef):
            try: return refs.evaluate(n.type)
            except Exception as e: return ("EVALFAIL", repr(e))
        return n.type
    for i, n in enumerate(nodes):
        if n.cyclic and not isinstance(n.type, t.ForwardRef): pass
        if isinstance(n.type, t.ForwardRef) and not n.cyclic: problems.append(f"fwdref not cyclic {n}")
        if n.cyclic:
            d = denotes(n)
            if not any((not m.cyclic) and (m.type == d or m.unwrapped == d) for m in nodes): problems.append(f"cyclic not a revisit {n} -> {d}")
            continue
        u = unwrap_ref(n.type)
        if isinstance(u, tuple): continue  # string alias: single deferred node
        for c in direct_members(u):
            cu = unwrap_ref(c)
            ok = False
            for m in nodes[:i]:
                if m.type == c or (not isinstance(cu, tuple) and m.unwrapped == cu) or denotes(m) == c or (not isinstance(cu, tuple) and denotes(m) == cu):
                    ok = True; break
            if not ok: problems.append(f"member {c} of {n.type} has no earlier node")
    print(label.ljust(28), len(nodes), "OK" if not problems else problems)
for name in ["Leaf", "Mid", "Cyc", "NTu", "TDd", "LA", "SA", "Rec", "IntNT", "E"]:
    check(getattr(M, name), name)
check(dict[str, list[int]], "dict[str,list[int]]"); check(list[M.Cyc], "list[Cyc]"); check(t.Optional[M.Mid], "Optional[Mid]"); check(tuple[M.Leaf, M.Leaf], "tuple[Leaf,Leaf]"); check(dict[str, M.NTu], "dict[str,NTu]"); check(list[t.Optional[int]], "list[Optional[int]]"); check(set[tuple[int, ...]], "set[tuple[int,...]]")
clear_all(); a = graph.static_order("dict[str, int]"); b = graph.static_order(dict[str, int]); print("str==type", a == b)
clear_all(); a = graph.static_order(t.NewType("X", dict[str, int])); print([ (n.type, n.unwrapped) for n in a][-1], a[:-1] == b[:-1])
clear_all(); a = graph.static_order(TA("Y", dict[str, int])); print([ (n.type, n.unwrapped) for n in a][-1], a[:-1] == b[:-1])
clear_all(); a = graph.static_order(refs.forwardref("Mid", module="g1")); b2 = graph.static_order(M.Mid); print("fwdref==type", a == b2)
print(graph.static_order(M.SA), graph.static_order(M.Rec))
