from __future__ import annotations
import itertools, typing as t, decimal, datetime as dt, uuid, dataclasses, enum, sys, types
from tl import *
from typelib import graph
from typelib.py import refs, inspection, compat

def show(T):
    clear_all()
    try:
        for n in graph.static_order(T): print("   ", n)
    except Exception as e:
        print("   EXC", type(e).__name__, e)

@dataclasses.dataclass
class Outer:
    @dataclasses.dataclass
    class Inner:
        x: int
        nxt: t.Optional["Outer.Inner"] = None
    i: "Outer.Inner"
print("Outer"); show(Outer)
print("Outer.Inner"); show(Outer.Inner)
print(um(Outer.Inner, {"x": "1", "nxt": {"x": "2"}}))
print(um(Outer, {"i": {"x": "1", "nxt": {"x": "2"}}}))

@dataclasses.dataclass
class A:
    b: t.Optional[B] = None
    x: int = 0
@dataclasses.dataclass
class B:
    a: list[A] = dataclasses.field(default_factory=list)
    y: int = 0
print("A"); show(A)
print("B"); show(B)
print("list[A]"); show(list[A])
print("dict[str,A]"); show(dict[str, A])
print("Optional[A]"); show(t.Optional[A])
clear_all(); print(um(A, {"b": {"a": [{"x": "5", "b": {"y": "3"}}], "y": "2"}, "x": "1"}))
clear_all(); print(um(B, {"a": [{"x": "5", "b": {"y": "3", "a":[{"x":"9"}]}}], "y": "2"}))
clear_all(); print(um(list[A], [{"b": {"a": [{"x": "5", "b": {"y": "3"}}], "y": "2"}, "x": "1"}]))
clear_all(); print(um(dict[str, A], {"k": {"b": {"a": [{"x": "5", "b": {"y": "3"}}], "y": "2"}, "x": "1"}}))

# diamond sharing
@dataclasses.dataclass
class Leaf:
    v: int
@dataclasses.dataclass
class L:
    leaf: Leaf
@dataclasses.dataclass
class R:
    leaf: Leaf
@dataclasses.dataclass
class Top:
    l: L
    r: R
    leaf: Leaf
print("Top (diamond)"); show(Top)
clear_all(); print(um(Top, {"l": {"leaf": {"v": "1"}}, "r": {"leaf": {"v": "2"}}, "leaf": {"v": "3"}}))
# sharing through subscripted generic
@dataclasses.dataclass
class S:
    a: list[Leaf]
    b: list[Leaf]
    c: dict[str, list[Leaf]]
print("S (shared list[Leaf])"); show(S)
clear_all(); print(um(S, {"a": [{"v": "1"}], "b": [{"v": "2"}], "c": {"k": [{"v": "3"}]}}))
print("dict[str, list[int]] / list[list[int]]"); show(tuple[list[int], list[int], dict[str, list[int]]])
clear_all(); print(um(tuple[list[int], list[int], dict[str, list[int]]], [["1"], ["2"], {"k": ["3"]}]))
