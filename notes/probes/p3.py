from __future__ import annotations
import dataclasses, typing as t, datetime as dt, decimal, uuid, enum, warnings, collections
warnings.simplefilter("ignore")
import typelib
from typelib import graph
from typelib.py import inspection

def um(T, x):
    try:
        return typelib.unmarshal(T, x)
    except Exception as e:
        return f"EXC {type(e).__module__}.{type(e).__name__}: {e}"[:150]
def ma(T, x):
    try:
        return typelib.marshal(x, t=T)
    except Exception as e:
        return f"EXC {type(e).__module__}.{type(e).__name__}: {e}"[:150]

print("--- C08")
print(repr(um(t.Union[None, int, str], None)))
print(repr(um(t.Union[int, None, str], None)))
print(repr(um(t.Union[int, str, None], None)))
print(repr(um(t.Optional[int], None)))
print(repr(um(t.Optional[str], None)))
print(repr(um(t.Union[str, None], None)))
print(repr(um(t.Union[None, str], None)))
print(repr(um(decimal.Decimal | str, "abc")))
print(repr(um(t.Union[decimal.Decimal, str], "abc")))
print(repr(um(t.Union[uuid.UUID, str], "abc")))
print(repr(um(t.Union[dt.date, str], "abc")))
print(repr(um(t.Union[dt.datetime, str], "abc")))
print(repr(um(t.Union[int, str], "abc")))
print(repr(um(t.Union[list[int], str], "abc")))
print(repr(um(t.Union[dict[str,int], str], "abc")))
print(repr(um(t.Union[int, list[int]], 5)), repr(um(t.Union[list[int], int], 5)))
print("stack for Union[None,int,str]:", typelib.unmarshaller(t.Union[None, int, str]).stack)
print("stack for Union[int,None,str]:", typelib.unmarshaller(t.Union[int, None, str]).stack)
print("marshal")
print(repr(ma(t.Union[None, int, str], None)), repr(ma(t.Union[int, str], "a")), repr(ma(t.Union[int,str], 5)), repr(ma(t.Union[str,int], 5)))
print(repr(ma(t.Union[dt.date, int], 5)))
print(repr(ma(t.Union[int, dt.date], dt.date(2020,1,1))))
print(repr(ma(t.Union[decimal.Decimal, int], 5)))
# equality of Union[int,str] and Union[str,int]
print("Union eq:", t.Union[int,str] == t.Union[str,int], hash(t.Union[int,str]) == hash(t.Union[str,int]))
print((int|str) == (str|int))
u1 = typelib.unmarshaller(t.Union[int, str])
u2 = typelib.unmarshaller(t.Union[str, int])
print("same routine object:", u1 is u2, u1.stack, u2.stack)
print(um(t.Union[str,int], 5), um(t.Union[int,str], "5"))
