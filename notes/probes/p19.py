import typing as t, json, dataclasses, datetime as dt, decimal, enum, collections, uuid
from tl import *
@dataclasses.dataclass
class D:
    a: int
    b: list[str]
    c: t.Optional[dt.datetime] = None
    d: dict[str, decimal.Decimal] = dataclasses.field(default_factory=dict)
v = D(1, ["x", "null"], dt.datetime(2020,1,1,tzinfo=dt.timezone.utc), {"k": decimal.Decimal("1.50")})
c = typelib.codec(D)
e = c.encode(v); print(e, json.loads(e) == typelib.marshal(v, t=D), c.decode(e) == v)
print(typelib.encode(v, t=D) == e, typelib.encode(v) == e, typelib.decode(D, e) == v)
# custom encoder
def enc(o): return b"TAG" + json.dumps(o, sort_keys=True).encode()
def dec(b): assert b[:3] == b"TAG"; return json.loads(b[3:])
c2 = typelib.codec(D, encoder=enc, decoder=dec)
e2 = c2.encode(v); print(e2[:20], c2.decode(e2) == v, typelib.encode(v, t=D, encoder=enc) == e2, typelib.decode(D, e2, decoder=dec) == v)
c3 = typelib.codec(D, encoder=lambda o: json.dumps(o).encode(), decoder=json.loads)
print(c3.decode(c3.encode(v)) == v)
# bytes-like
for BT, val in [(bytes, b"\x00\xff{"), (bytearray, bytearray(b"\x00\xff")), (memoryview, memoryview(b"ab"))]:
    cb = typelib.codec(BT)
    try:
        eb = cb.encode(val); print(BT.__name__, repr(eb), repr(cb.decode(eb)), cb.decode(eb) == val, type(cb.decode(eb)))
    except Exception as ex: print(BT.__name__, "EXC", ex)
    try: print("  api:", repr(typelib.encode(val, t=BT)))
    except Exception as ex: print("  api EXC", type(ex).__name__, ex)
    try: print("  api decode:", repr(typelib.decode(BT, bytes(val))))
    except Exception as ex: print("  api decode EXC", type(ex).__name__, str(ex)[:80])
# non-str keys / big ints / float keys
for T, val in [(dict[int,str], {1:"a"}), (int, 2**64), (int, -2**63-1), (dict[str,int], {"a": 2**70}), (float, float("inf")), (float, float("nan")), (list[float], [1e308]), (str, "\ud800"), (dict[uuid.UUID, int], {uuid.UUID(int=1): 1}), (dict[dt.date, int], {dt.date(2020,1,1): 1}), (tuple[int,str], (1,"a")), (set[int], {1,2}), (collections.deque[int], collections.deque([1])), (t.Optional[int], None), (dict[bool,int], {True: 1}), (dict[float,int], {1.5: 1}), (dict[t.Optional[str],int], {None: 1})]:
    clear_all()
    try:
        cc = typelib.codec(T); eb = cc.encode(val); back = cc.decode(eb)
        print(str(T)[:30].ljust(30), repr(val)[:30].ljust(30), eb[:40], repr(back)[:40], back == val and type(back) is type(val))
    except Exception as ex: print(str(T)[:30].ljust(30), repr(val)[:30].ljust(30), "EXC", type(ex).__name__, str(ex)[:80])
