from __future__ import annotations
import typing as t, dataclasses, collections, datetime as dt, decimal, uuid, json, enum
from tl import *
from typelib import serdes
@dataclasses.dataclass
class Leaf:
    v: int
    w: decimal.Decimal = decimal.Decimal(0)
class NT(t.NamedTuple):
    a: int
    b: list[Leaf]
class TD(t.TypedDict):
    a: dt.date
    b: dict[str, Leaf]
@dataclasses.dataclass
class Top:
    leaf: Leaf
    nt: NT
    td: TD
    opt: t.Optional[Leaf] = None
    xs: tuple[int, str] = (0, "")
    ys: set[int] = dataclasses.field(default_factory=set)
def U(T): clear_all(); return typelib.unmarshaller(T)
def call(f, *a):
    try: return ("ok", f(*a))
    except Exception as e: return ("exc", type(e))
# one-level rebuild for dataclass Top
def rebuild_top(x):
    hints = t.get_type_hints(Top)
    kw = {}
    for f, v in x.items():
        if f in hints:
            kw[f] = U(hints[f])(v)
    return Top(**kw)
good = {"leaf": {"v": "1", "w": "2.5"}, "nt": {"a": "3", "b": [{"v": 4}]}, "td": {"a": "2020-01-02", "b": {"k": {"v": "5"}}}, "opt": None, "xs": ["6", 7], "ys": ["8", 9]}
clear_all(); lib = call(typelib.unmarshal, Top, good); ref = call(rebuild_top, good)
print(lib == ref, lib)
import copy
for path, bad in [(("leaf","v"), "x"), (("nt","b"), [{"v": "zz"}]), (("td","a"), "notadate"), (("xs",), ["q", 1]), (("ys",), ["q"]), (("opt",), {"v": []}), (("td","b"), {"k": 5}), (("leaf",), 5), (("nt",), "abc")]:
    x = copy.deepcopy(good)
    d = x
    for p in path[:-1]: d = d[p]
    d[path[-1]] = bad
    clear_all(); lib = call(typelib.unmarshal, Top, x); ref = call(rebuild_top, x)
    print(path, "parity:", lib == ref, lib if lib[0]=="exc" else "ok", ref if ref[0]=="exc" else "ok")
# four source shapes
shapes = [good, list(good.items()), json.dumps(good), ]
for s in shapes:
    clear_all(); print(call(typelib.unmarshal, Top, s) == call(typelib.unmarshal, Top, good))
# idempotence quick sample
for T, x in [(str, 5), (float, "1"), (list[str], "[1, 2]"), (set[str], "ab"), (dict[str,int], [("a", "1")]), (tuple[int, ...], "1,2"), (decimal.Decimal, 1.1), (dt.datetime, dt.date(2020,1,1)), (dt.date, dt.datetime(2020,1,1,5,tzinfo=dt.timezone.utc)), (bool, "false"), (Leaf, '{"v": "1"}'), (list[Leaf], [[("v", 1)]]), (t.Optional[int], "5"), (dt.time, 3661), (uuid.UUID, 5), (dt.timedelta, "PT5S"), (int, 1.9), (str, b"x"), (list[int], {"a": "1"}), (dict[str,str], Leaf(1))]:
    clear_all(); r1 = call(typelib.unmarshal, T, x)
    if r1[0] == "ok":
        r2 = call(typelib.unmarshal, T, r1[1])
        print("idem", r2 == r1 and type(r2[1]) is type(r1[1]), T, repr(x)[:30], r1[1], r2[1])
# C14(2)
for T, v in [(list[str], ["1", "a'b", 'q"', "é\n"]), (dict[str, list[int]], {"k": [1, 2**70]}), (Leaf, Leaf(1)), (tuple[str,str], ("a","b")), (dict[str, t.Optional[float]], {"a": None, "b": 1e16, "c": -0.0}), (list[Leaf], [Leaf(2, decimal.Decimal("1E+5"))]), (dict[bool,int], {False: 1}), (dict[int,str], {1: "a"})]:
    clear_all(); m = typelib.marshal(v, t=T)
    a = call(typelib.unmarshal, T, m); b = call(typelib.unmarshal, T, json.dumps(m)); c = call(typelib.unmarshal, T, repr(m))
    print("c14", a == b, a == c, T, a[1], b[1] if a != b else "")
