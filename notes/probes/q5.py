import ast, random, itertools, collections
from typelib.py import future
# symbolic namespace
class Sym:
    def __init__(self, node): self.node = node
    def __getitem__(self, item): return Sym(("sub", self.node, norm(item)))
    def __or__(self, o): return mkunion(self, o)
    def __ror__(self, o): return mkunion(o, self)
    def __and__(self, o): return Sym(("and", self.node, norm(o)))
    def __rand__(self, o): return Sym(("and", norm(o), self.node))
    def __add__(self, o): return Sym(("add", self.node, norm(o)))
    def __radd__(self, o): return Sym(("add", norm(o), self.node))
    def __getattr__(self, name):
        if name.startswith("__"): raise AttributeError(name)
        return resolve_attr(self, name)
    def __call__(self, *a, **k): return Sym(("call", self.node, tuple(norm(x) for x in a)))
    def __neg__(self): return Sym(("neg", self.node))
ALIASES = {"typing.Dict": "dict", "typing.List": "list", "typing.Set": "set", "typing.Tuple": "tuple", "typing.Pattern": "Pattern"}
def resolve_attr(s, name):
    full = f"{s.node[1]}.{name}" if s.node[0] == "name" else None
    if full is None: return Sym(("attr", s.node, name))
    if full == "typing.Union": return UnionCtor()
    return Sym(("name", ALIASES.get(full, full)))
class UnionCtor:
    def __getitem__(self, item):
        items = item if isinstance(item, tuple) else (item,)
        ms = []
        for it in items: ms += members(norm(it))
        return Sym(("union", tuple(ms))) if len(ms) > 1 else Sym(ms[0])
def norm(x):
    if isinstance(x, Sym): return x.node
    if isinstance(x, tuple): return ("tuple", tuple(norm(i) for i in x))
    if isinstance(x, list): return ("list", tuple(norm(i) for i in x))
    if x is Ellipsis: return ("ellipsis",)
    return ("const", repr(x))
def members(n): return list(n[1]) if n[0] == "union" else [n]
def mkunion(a, b): return Sym(("union", tuple(members(norm(a)) + members(norm(b)))))
class NS(dict):
    def __missing__(self, k): return Sym(("name", k))
class Lift(ast.NodeTransformer):
    def visit_Constant(self, node):
        return ast.copy_location(ast.Call(func=ast.Name(id="__K", ctx=ast.Load()), args=[ast.Constant(value=repr(node.value))], keywords=[]), node)
def ev(s):
    ns = NS(); ns["__builtins__"] = {}; ns["__K"] = lambda r: Sym(("const", r))
    tree = ast.fix_missing_locations(Lift().visit(ast.parse(s, mode="eval")))
    return norm(eval(compile(tree, "<sym>", "eval"), ns))
# grammar
rnd = random.Random(5)
NAMES = ["int", "str", "Foo", "list", "dict", "set", "tuple", "Pattern", "frozenset", "t.Optional", "typing.List", "collections.abc.Mapping", "a.b.c", "None"]
def atom(d):
    r = rnd.random()
    if d <= 0 or r < 0.35: return rnd.choice(NAMES)
    if r < 0.60:
        base = rnd.choice(["list", "dict", "set", "tuple", "Foo", "typing.Dict", "t.Optional", "collections.abc.Mapping", "Pattern", "type"])
        n = rnd.choice([1, 1, 2, 3])
        args = ", ".join(expr(d - 1) for _ in range(n))
        if rnd.random() < 0.1: args += ", ..."
        return f"{base}[{args}]"
    if r < 0.70: return "Literal[" + ", ".join(rnd.choice(["'a|b'", "'list[int]'", "'x'", "1", "None", "'a | b'"]) for _ in range(rnd.choice([1, 2]))) + "]"
    if r < 0.78: return f"Callable[[{', '.join(expr(d-1) for _ in range(rnd.choice([0,1,2])))}], {expr(d-1)}]"
    if r < 0.84: return f"Annotated[{expr(d-1)}, 'a | b']"
    if r < 0.90: return rnd.choice(["'Foo | None'", "'list[int]'", "'Foo'"])
    return "(" + expr(d - 1) + ")"
def expr(d):
    r = rnd.random()
    if r < 0.45: return atom(d)
    if r < 0.85:
        n = rnd.choice([2, 2, 3, 4])
        parts = [atom(d - 1) for _ in range(n)]
        s = parts[0]
        for p in parts[1:]:
            if rnd.random() < 0.25: s = f"({s})"
            s = f"{s} | {p}" if rnd.random() < 0.8 else f"{p} | ({s})"
        return s
    op = rnd.choice(["&", "+", "&"])
    return f"{atom(d-1)} {op} {atom(d-1)}" + (f" | {atom(d-1)}" if rnd.random() < 0.5 else "")
buckets = collections.Counter(); ex = {}
N = 30000; nontrivial = 0
for i in range(N):
    s = expr(rnd.choice([1, 2, 3, 4]))
    try: out = future.transform(s)
    except Exception as e:
        buckets[("transform raised", type(e).__name__)] += 1; ex.setdefault(("transform raised", type(e).__name__), s); continue
    tin = ast.parse(s, mode="eval"); tout = ast.parse(out, mode="eval")
    has_or = any(isinstance(n, ast.BinOp) and isinstance(n.op, ast.BitOr) for n in ast.walk(tin))
    if has_or and "[" in s: nontrivial += 1
    try:
        a = ev(s); b = ev(out)
        if a != b: k = ("structure differs", "has non-| binop" if any(isinstance(n, ast.BinOp) and not isinstance(n.op, ast.BitOr) for n in ast.walk(tin)) else "pure"); buckets[k] += 1; ex.setdefault(k, (s, out))
    except Exception as e:
        k = ("eval failed", type(e).__name__, str(e)[:40]); buckets[k] += 1; ex.setdefault(k, (s, out))
    if any(isinstance(n, ast.BinOp) and isinstance(n.op, ast.BitOr) for n in ast.walk(tout)): buckets[("residual |",)] += 1; ex.setdefault(("residual |",), (s, out))
    if future.transform(out) != out: buckets[("not fixpoint",)] += 1; ex.setdefault(("not fixpoint",), (s, out))
    bare = any(isinstance(n, ast.Name) and n.id in ("dict","list","set","tuple","Pattern") for n in ast.walk(tin))
    if not has_or and not bare and ast.dump(tin) != ast.dump(tout): buckets[("ast changed without constructs",)] += 1; ex.setdefault(("ast changed without constructs",), (s, out))
print(N, "exprs; nontrivial", nontrivial)
for k, v in buckets.most_common(): print(k, v, "\n     ", ex[k])
